#!/usr/bin/env python3
"""Regenerates /verif/MANIFEST.json from /verif/checks/*.json (claimed) and /verif/checks/not_applicable.json."""
import json, glob, os
V = '/verif'
props = [json.loads(l)['id'] for l in open(f'{V}/properties.jsonl')]
checks = []
claimed = set()
for p in sorted(glob.glob(f'{V}/checks/C*.json')):
    s = json.load(open(p))
    pid = s['property']
    if not s.get('registered', True):
        continue
    claimed.add(pid)
    outside = '; '.join(s.get('outside_bounds', []))
    c = {
        'property_id': pid,
        'quick_cmd': f'/verif/bin/vsym check {pid} --tier quick',
        'thorough_cmd': f'/verif/bin/vsym check {pid} --tier thorough',
        'evidence_file': f'/verif/evidence/{pid}.json',
        'replay_cmd_template': '/verif/bin/vsym replay {path}',
        'engine': 'vsym',
        'level_claimed': {
            'category': 'model_checking',
            'text': s.get('level_text', ''),
            'design_ref': s.get('design_ref', f'DESIGN.md §4 {pid}'),
        },
        'level_note': s.get('level_note', '') + (' Outside the bounds: ' + outside if outside else ''),
        'technique': s.get('technique', 'bounded symbolic execution of the go/ssa form of the real code; every branch and assertion decided by an SMT solver (z3/cvc5, QF_BV); counterexamples replayed against the real build'),
    }
    checks.append(c)
na_file = f'{V}/checks/not_applicable.json'
na_reasons = json.load(open(na_file)) if os.path.exists(na_file) else {}
na = []
for p in props:
    if p not in claimed:
        na.append({'property_id': p, 'reason': na_reasons.get(p, 'check not yet ported from the design prototype (work in progress; DESIGN.md §5)')})
m = {
    'version': 1,
    'setup_cmd': 'cd /verif/engine && GOFLAGS=-mod=mod GOPROXY=off GOSUMDB=off GOTOOLCHAIN=local go build -o /verif/bin/vsym .',
    'hooks': {
        'guard': 'verif',
        'enable': 'no committed hook: harnesses, the native nondet shim and replay instrumentation are injected with go/packages overlays (symbolic build) and go test -overlay (native replay); nothing is written into /repo',
        'baseline_off_cmd': 'cd /repo && go test -vet=off -count=1 -timeout 25m ./...',
        'source_commits': [],
        'add_only': True,
    },
    'engines': [{
        'name': 'vsym', 'path': '/verif/engine', 'serves_properties': sorted(claimed),
        'kind_free_text': 'bounded symbolic executor for the go/ssa form of the real trzsz-go code (regenerated from /repo on every run); SMT (z3 4.8.12 / cvc5 1.0) decides every branch and assertion; counterexamples are re-executed concretely and replayed natively against the real build',
    }],
    'checks': checks,
    'not_applicable': na,
    'notes': 'Every check is `vsym check <ID>`; specs (entries, bounds, assumptions) are in /verif/checks/<ID>.json, harnesses in /verif/harness. Exit 0 = held within the bounds, 1 = reproduced violation (VIOLATION line), 2 = undecided (never on the unchanged tree). Known findings: /verif/known_findings.json.',
}
json.dump(m, open(f'{V}/MANIFEST.json', 'w'), indent=1)
print('claimed', sorted(claimed), 'not_applicable', [x['property_id'] for x in na])
