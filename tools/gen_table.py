#!/usr/bin/env python3
# Regenerates the run table of DESIGN.md §4 from /verif/checks/*.json (between the RUNS-TABLE markers).
import json, glob, os, re
root = os.path.dirname(os.path.dirname(os.path.abspath(__file__)))
rows = ["| id | quick tier: run(bounds) | thorough adds |", "|---|---|---|"]
for p in sorted(glob.glob(os.path.join(root, 'checks', 'C*.json'))):
    s = json.load(open(p)); q = []; t = []
    for r in s['runs']:
        b = ','.join(f"{k}={v}" for k, v in r.get('bounds', {}).items())
        e = r['name'] + (f"({b})" if b else '') + (' [sched]' if r.get('sched') else '') + (' [scaled]' if r.get('scaled') else '')
        tiers = r.get('tiers') or ['quick', 'thorough']
        (q if 'quick' in tiers else t).append(e)
    rows.append(f"| {s['property']} | {' · '.join(q)} | {' · '.join(t) or 'same runs'} |")
d = open(os.path.join(root, 'DESIGN.md')).read()
d2 = re.sub(r'(<!-- RUNS-TABLE-BEGIN -->\n).*?(<!-- RUNS-TABLE-END -->)', lambda m: m.group(1) + '\n'.join(rows) + '\n' + m.group(2), d, flags=re.S)
open(os.path.join(root, 'DESIGN.md'), 'w').write(d2)
print("table rows:", len(rows) - 2)
