#!/bin/bash
# Re-applies every kept seeded change to /repo (one at a time), runs its property's quick check, reverts.
# usage: tools/recheck_seeds.sh [seed-name...]
cd /verif
NAMES="$@"; [ -z "$NAMES" ] && NAMES=$(ls seeded)
for n in $NAMES; do
  P=$(python3 -c "import json;print(json.load(open('/verif/seeded/$n/meta.json'))['property'])")
  WT=$(mktemp -d /tmp/wt_recheck_XXXX); rmdir $WT
  git -C /repo worktree add -q --detach $WT HEAD
  if ! (cd $WT && git apply /verif/seeded/$n/patch.diff 2>/dev/null); then echo "$n: patch no longer applies"; git -C /repo worktree remove --force $WT; continue; fi
  VERIF_REPO=$WT timeout 3000 ./bin/vsym check $P --tier quick > /tmp/recheck_$n.txt 2>&1; RC=$?
  git -C /repo worktree remove --force $WT
  echo "$n: property=$P exit=$RC $(grep -c '^VIOLATION' /tmp/recheck_$n.txt) violations"
  rm -f /tmp/recheck_$n.txt
done
