#!/bin/bash
# usage: tools/run_tier.sh <tier> [ids...]   — runs the checks of one tier from the current directory's copy of /verif
export GOFLAGS=-mod=mod GOPROXY=off GOSUMDB=off GOTOOLCHAIN=local
export VERIF_DIR=$PWD
TIER=$1; shift
(cd engine && go build -o ../bin/vsym .) || exit 2
IDS="$@"
[ -z "$IDS" ] && IDS=$(ls checks/C*.json | sed 's/.*\/\(C[0-9]*\).json/\1/')
for p in $IDS; do
  /usr/bin/time -f "$p wall=%es maxrss=%MKB" ./bin/vsym check $p --tier $TIER > out_$p.txt 2>&1
  echo "$p exit=$? $(grep '^check ' out_$p.txt)"
  grep -E "^VIOLATION|^UNDECIDED|^KNOWN" out_$p.txt | cut -c1-200
done
