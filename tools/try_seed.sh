#!/bin/bash
# usage: try_seed.sh <PROP> <worktree> <seed-name> [tier]
# Confirms a seeded change (suite passes with it, demo fails with it and passes without) in the scratch worktree,
# then runs the property's check against /repo with the patch applied, and reverts /repo.
set -u
P=$1; WT=$2; NAME=$3; TIER=${4:-quick}
export GOFLAGS=-mod=mod GOPROXY=off GOSUMDB=off GOTOOLCHAIN=local
OUT=/verif/seeded/$NAME
mkdir -p $OUT
cd $WT || exit 2
[ -f patch.diff ] || git diff -- trzsz ':!trzsz/zz_seed_demo_test.go' > patch.diff
cp patch.diff $OUT/patch.diff
cp trzsz/zz_seed_demo_test.go $OUT/demo_test.go 2>/dev/null
cp NOTES.txt $OUT/NOTES.txt 2>/dev/null
# 1. state: change applied?
git checkout -q -- trzsz 2>/dev/null
mv trzsz/zz_seed_demo_test.go /tmp/zz_demo_$NAME.go
git apply patch.diff || { echo "patch does not apply"; exit 2; }
go build ./... || { echo "BUILD FAILS"; exit 2; }
SUITE=$(go test -vet=off -count=1 ./trzsz 2>&1 | tail -1)
mv /tmp/zz_demo_$NAME.go trzsz/zz_seed_demo_test.go
DEMO_WITH=$(timeout 120 go test -vet=off -count=1 -run TestSeedDemo ./trzsz 2>&1 | tail -1)
git checkout -q -- trzsz
DEMO_WITHOUT=$(timeout 120 go test -vet=off -count=1 -run TestSeedDemo ./trzsz 2>&1 | tail -1)
git apply patch.diff
echo "suite with change:    $SUITE"
echo "demo with change:     $DEMO_WITH"
echo "demo without change:  $DEMO_WITHOUT"
# 2. our check against the scratch worktree with the patch applied ($VERIF_REPO; equivalent to applying it to /repo,
#    and safe while a long background run is reading /repo)
cd /verif && VERIF_REPO=$WT timeout 3000 ./bin/vsym check $P --tier $TIER > $OUT/check_output.txt 2>&1
RC=$?
grep -E "^VIOLATION|^KNOWN|^UNDECIDED|^check " $OUT/check_output.txt | cut -c1-250
echo "check exit code: $RC"
cat > $OUT/meta.json <<EOM
{"property": "$P", "seed": "$NAME", "suite_with_change": "$(echo $SUITE | tr '"' "'")", "demo_with_change": "$(echo $DEMO_WITH | tr '"' "'")", "demo_without_change": "$(echo $DEMO_WITHOUT | tr '"' "'")",
 "check_cmd": "vsym check $P --tier $TIER", "check_exit_code": $RC, "detected": $([ $RC -eq 1 ] && echo true || echo false)}
EOM
