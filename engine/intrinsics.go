package main

import (
	"fmt"
	"go/types"
	"sort"
	"strings"

	"golang.org/x/tools/go/ssa"
)

func (ex *Exec) sliceBytes(s Slice) []*Term {
	n := int(ex.concretize(s.len))
	out := make([]*Term, n)
	for i := 0; i < n; i++ {
		out[i] = ex.loadElem(s.arr, ex.ts.Bin(OpAdd, s.off, ex.ts.Const(64, uint64(i)))).(*Term)
	}
	return out
}

func (ex *Exec) indexByteTerm(bs []*Term, c *Term) *Term {
	res := ex.ts.Const(64, ^uint64(0))
	for i := len(bs) - 1; i >= 0; i-- {
		res = ex.ts.Ite(ex.ts.Eq(bs[i], c), ex.ts.Const(64, uint64(i)), res)
	}
	return res
}

func (ex *Exec) intrinsic(fn *ssa.Function, args []Value) (Value, bool) {
	name := fn.String()
	if fn.Pkg == ex.pkg && strings.HasPrefix(fn.Name(), "verif") {
		ex.stubsUsed[name]++
		switch fn.Name() {
		case "verifNondetByte":
			return ex.nondetH(8), true
		case "verifNondetInt":
			return ex.nondetH(64), true
		case "verifNondetBool":
			return ex.nondetH(BoolSort), true
		case "verifBound":
			k := ex.describe(args[0])
			v, ok := ex.bounds[k]
			if !ok {
				panic(unsupported("verifBound: no bound named " + k))
			}
			return ex.ts.Const(64, uint64(v)), true
		case "verifBoundOr": // an optional bound of a shared harness: absent = the default (recorded like any other bound)
			k := ex.describe(args[0])
			if v, ok := ex.bounds[k]; ok {
				return ex.ts.Const(64, uint64(v)), true
			}
			return args[1], true
		case "verifAssume":
			c := args[0].(*Term)
			if !c.IsConst() {
				if !ex.feasible(c) {
					panic(pathEnd{"assume", ""})
				}
			}
			ex.assume(c)
			ex.assumps++
			return nil, true
		case "verifAssert":
			c := args[0].(*Term)
			msg := ex.describe(args[1])
			if c.IsTrue() {
				return nil, true
			}
			ex.violation("assert", msg, ex.ts.Not(c))
			ex.assume(c)
			return nil, true
		case "verifReach":
			ex.reached[ex.describe(args[0])] = true
			return nil, true
		case "verifBlockForever":
			ex.wait(func() bool { return false }, "environment idle")
			return nil, true
		case "verifQuiesce":
			me := ex.sch.cur
			ex.wait(func() bool { return ex.othersQuiescent(me) }, "quiesce")
			return nil, true
		case "verifAssertNoLiveThreads", "verifAssertNoLiveThreadsExcept":
			// every worker thread must have finished; the violation carries the blocking sites
			sites := ex.liveSites()
			if fn.Name() == "verifAssertNoLiveThreadsExcept" {
				allow := ex.describe(args[1])
				var keep []string
				for _, st := range sites {
					if !strings.Contains(st, allow) {
						keep = append(keep, st)
					}
				}
				sites = keep
			}
			if len(sites) > 0 {
				sort.Strings(sites)
				ex.violation("assert", ex.describe(args[0]), nil)
				if n := len(ex.viols); n > 0 {
					ex.viols[n-1].detail = strings.Join(sites, "; ")
				}
				panic(pathEnd{"assume", "live threads"})
			}
			return nil, true
		case "verifLiveThreads":
			return ex.ts.Const(64, uint64(ex.liveThreads())), true
		case "verifNondetRange":
			lo, hi := args[0].(*Term), args[1].(*Term)
			v := ex.nondetH(64)
			c := ex.ts.And(ex.ts.Bin(OpSLe, lo, v), ex.ts.Bin(OpSLe, v, hi))
			if !ex.feasible(c) {
				panic(pathEnd{"assume", "empty range"})
			}
			ex.assume(c)
			if lo.IsConst() && hi.IsConst() && hi.val-lo.val <= 80 {
				// small ranges (sizes, kinds, cut positions) are case-split at once: keeps slice offsets and lengths concrete
				return ex.ts.Const(64, ex.concretize(v)), true
			}
			return v, true
		case "verifExpectBlock":
			ex.expectBlk = int(args[0].(*Term).val)
			return nil, true
		}
	}
	if r, ok := ex.timerIntrinsic(fn, name, args); ok {
		ex.stubsUsed[name]++
		return r, true
	}
	if r, ok := ex.ropeIntrinsic(fn, name, args); ok {
		ex.stubsUsed[name]++
		return r, true
	}
	if r, ok := ex.fsIntrinsic(fn, name, args); ok {
		ex.stubsUsed[name]++
		return r, true
	}
	if r, ok := ex.strIntrinsic(fn, name, args); ok {
		ex.stubsUsed[name]++
		return r, true
	}
	if r, ok := ex.codecIntrinsic(fn, name, args); ok {
		ex.stubsUsed[name]++
		return r, true
	}
	if r, ok := ex.regexIntrinsic(name, args); ok {
		ex.stubsUsed[name]++
		return r, true
	}
	if r, ok := ex.concIntrinsic(fn, args); ok {
		ex.stubsUsed[name]++
		return r, true
	}
	switch name {
	case "github.com/trzsz/trzsz-go/trzsz.tmuxRefreshClient":
		ex.stubsUsed[name]++
		return nil, true
	case "(*github.com/trzsz/trzsz-go/trzsz.textProgressBar).showProgress":
		// rendering (clock, speed and percentage floats, layout) is decided separately (C20 A/B/D); here a render is just
		// an observable write of one marker byte through the real writeProgress, so that harnesses see THAT a line was drawn
		ex.stubsUsed[name]++
		if ex.bounds["REALSHOW"] == 0 {
			wp := ex.pkg.Prog.LookupMethod(types.NewPointer(ex.pkg.Type("textProgressBar").Type()), ex.pkg.Pkg, "writeProgress")
			ex.call(Closure{fn: wp}, []Value{args[0], ex.strConst("R")}, nil)
			return nil, true
		}
	case "github.com/trzsz/trzsz-go/trzsz.convertSizeToString", "github.com/trzsz/trzsz-go/trzsz.convertTimeToString":
		if ex.bounds["REALCONV"] != 0 {
			break // the converters themselves are the subject (C20 converters run): execute them, float comparisons free
		}
		// float formatting of sizes and durations: a contract stub — 3..24 printable ASCII characters
		ex.stubsUsed[name+" (3..24 ASCII)"]++
		l := ex.nondet(64)
		ex.assume(ex.ts.And(ex.ts.Bin(OpSLe, ex.ts.Const(64, 3), l), ex.ts.Bin(OpSLe, l, ex.ts.Const(64, 24))))
		return Rope{[]Seg{{opaque: true, ln: l, wd: l}}}, true
	case "(*github.com/trzsz/trzsz-go/trzsz.recentSpeed).getSpeed":
		ex.stubsUsed[name+" (free float)"]++
		return FVal{"free", nil}, true
	case "(*github.com/trzsz/trzsz-go/trzsz.trzszTransfer).resetTerm":
		// terminal restore and message printing on the real stdout: outside every claim
		ex.stubsUsed[name]++
		return nil, true
	case "github.com/trzsz/trzsz-go/trzsz.syscallAccessRok":
		ex.stubsUsed[name]++
		return Iface{}, true
	case "github.com/trzsz/trzsz-go/trzsz.syscallAccessWok":
		// access(2) W_OK on the destination directory: the stub FS has no permissions
		ex.stubsUsed[name]++
		return Iface{}, true
	case "github.com/trzsz/trzsz-go/trzsz.writeToClipboard":
		ex.stubsUsed[name]++
		return nil, true
	case "(*github.com/trzsz/trzsz-go/trzsz.zmodemTransfer).showProgress":
		// progress text of the zmodem bridge (float formatting): outside every claim
		ex.stubsUsed[name]++
		return nil, true
	case "internal/bytealg.CountString", "internal/bytealg.Count":
		ex.stubsUsed[name]++
		var hay []*Term
		if st, ok := args[0].(Str); ok {
			hay = st.b
		} else {
			hay = ex.sliceBytes(args[0].(Slice))
		}
		c := args[1].(*Term)
		n := ex.ts.Const(64, 0)
		for _, b := range hay {
			n = ex.ts.Bin(OpAdd, n, ex.ts.Ite(ex.ts.Eq(b, c), ex.ts.Const(64, 1), ex.ts.Const(64, 0)))
		}
		return ex.ts.Const(64, ex.concretize(n)), true
	case "strings.Clone", "internal/stringslite.Clone":
		return args[0], true // strings are immutable values here
	case "bytes.Contains":
		ex.stubsUsed[name]++
		hay, needle := ex.sliceBytes(args[0].(Slice)), ex.sliceBytes(args[1].(Slice))
		r := ex.ts.F
		for s := 0; s+len(needle) <= len(hay); s++ {
			m := ex.ts.T
			for k := range needle {
				m = ex.ts.And(m, ex.ts.Eq(hay[s+k], needle[k]))
			}
			r = ex.ts.Or(r, m)
		}
		return r, true
	case "strings.Join":
		ex.stubsUsed[name]++
		el := args[0].(Slice)
		sep := args[1].(Str)
		n := int(ex.concretize(el.len))
		var out []*Term
		for k := 0; k < n; k++ {
			if k > 0 {
				out = append(out, sep.b...)
			}
			s := ex.loadElem(el.arr, ex.ts.Bin(OpAdd, el.off, ex.ts.Const(64, uint64(k)))).(Str)
			out = append(out, s.b...)
		}
		return Str{out}, true
	case "strings.IndexByte", "internal/bytealg.IndexByteString":
		ex.stubsUsed[name]++
		return ex.indexByteTerm(args[0].(Str).b, args[1].(*Term)), true
	case "bytes.IndexByte":
		ex.stubsUsed[name]++
		r := ex.indexByteTerm(ex.sliceBytes(args[0].(Slice)), args[1].(*Term))
		return ex.ts.Const(64, ex.concretize(r)), true
	case "runtime/debug.Stack":
		ex.stubsUsed[name]++
		return ex.mkByteSlice(nil), true
	}
	return nil, false
}

var _ = fmt.Sprint
