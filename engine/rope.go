package main

import (
	"fmt"
	"go/types"
	"strings"

	"golang.org/x/tools/go/ssa"
)

type Seg struct {
	b      []*Term
	opaque bool
	ln     *Term
	wd     *Term
	rn     *Term // abstract rune variable (BV32) if this segment is one rune
	num    *Term // the integer this segment is the decimal rendering of (BV64), if it is one
}

type Rope struct{ segs []Seg }

type FVal struct {
	op   string
	args []Value
}

func (ex *Exec) toRope(v Value) Rope {
	switch x := v.(type) {
	case Rope:
		return x
	case Str:
		if len(x.b) == 0 {
			return Rope{}
		}
		return Rope{[]Seg{{b: x.b}}}
	}
	panic(unsupported(fmt.Sprintf("toRope %T", v)))
}

func (ex *Exec) ropeLen(r Rope) *Term {
	n := ex.ts.Const(64, 0)
	for _, s := range r.segs {
		if s.opaque {
			n = ex.ts.Bin(OpAdd, n, s.ln)
		} else {
			n = ex.ts.Bin(OpAdd, n, ex.ts.Const(64, uint64(len(s.b))))
		}
	}
	return n
}

func (ex *Exec) concreteWidth(b []*Term) *Term {
	w := 0
	esc := 0 // 0 none, 1 after ESC, 2 inside CSI
	for _, t := range b {
		if !t.IsConst() {
			panic(unsupported("display width of symbolic bytes"))
		}
		c := byte(t.val)
		switch {
		case esc == 1:
			if c == '[' {
				esc = 2
			} else {
				esc = 0
			}
		case esc == 2:
			if (c >= 'a' && c <= 'z') || (c >= 'A' && c <= 'Z') {
				esc = 0
			}
		case c == 0x1b:
			esc = 1
		case c < 0x20 || c == 0x7f:
		case c >= 0x80 && c < 0xc0:
		default:
			w++
		}
	}
	return ex.ts.Const(64, uint64(w))
}

func (ex *Exec) ropeWidth(r Rope) *Term {
	n := ex.ts.Const(64, 0)
	for _, s := range r.segs {
		if s.opaque {
			n = ex.ts.Bin(OpAdd, n, s.wd)
		} else {
			n = ex.ts.Bin(OpAdd, n, ex.concreteWidth(s.b))
		}
	}
	return n
}

func (ex *Exec) ropeCat(a, b Rope) Rope {
	return Rope{append(append([]Seg{}, a.segs...), b.segs...)}
}

// digitCount returns the number of characters of the decimal rendering of a signed 64-bit term.
func (ex *Exec) digitCount(t *Term) *Term {
	neg := ex.ts.Bin(OpSLt, t, ex.ts.Const(64, 0))
	abs := ex.ts.Ite(neg, ex.ts.Neg(t), t)
	res := ex.ts.Const(64, 20)
	p := uint64(10000000000000000000)
	for d := 19; d >= 1; d-- {
		res = ex.ts.Ite(ex.ts.Bin(OpULt, abs, ex.ts.Const(64, p)), ex.ts.Const(64, uint64(d)), res)
		p /= 10
	}
	return ex.ts.Bin(OpAdd, res, ex.ts.Ite(neg, ex.ts.Const(64, 1), ex.ts.Const(64, 0)))
}

func (ex *Exec) sprintf(format string, args []Value) Value {
	var out Rope
	lit := func(s string) {
		if s != "" {
			out = ex.ropeCat(out, ex.toRope(ex.strConst(s)))
		}
	}
	ai := 0
	for i := 0; i < len(format); {
		j := strings.IndexByte(format[i:], '%')
		if j < 0 {
			lit(format[i:])
			break
		}
		lit(format[i : i+j])
		i += j + 1
		if i >= len(format) {
			break
		}
		for i < len(format) && strings.IndexByte("0123456789.+-# ", format[i]) >= 0 {
			i++ // width / precision / flags: the symbolic renderings below do not depend on them
		}
		verb := format[i]
		i++
		if verb == '%' {
			lit("%")
			continue
		}
		a := args[ai]
		ai++
		if ia, ok := a.(Iface); ok {
			a = ia.v
		}
		switch verb {
		case 's', 'v':
			switch x := a.(type) {
			case Str, Rope:
				out = ex.ropeCat(out, ex.toRope(x))
			case *Term:
				if x.IsConst() {
					lit(fmt.Sprint(int64(sext(x.val, x.sort))))
				} else {
					dc := ex.digitCount(ex.ts.SExt(x, 64))
					out.segs = append(out.segs, Seg{opaque: true, ln: dc, wd: dc})
				}
			case *Opaque:
				lit("<" + x.name + ">")
			default:
				lit(fmt.Sprintf("<%T>", a)) // only reached for diagnostics (error values, pointers)
			}
		case 'd':
			x := a.(*Term)
			if x.IsConst() {
				lit(fmt.Sprint(int64(sext(x.val, x.sort))))
			} else {
				x64 := ex.ts.SExt(x, 64)
				dc := ex.digitCount(x64)
				out.segs = append(out.segs, Seg{opaque: true, ln: dc, wd: dc, num: x64})
			}
		case 'f':
			fv, ok := a.(FVal)
			if !ok {
				panic(unsupported(fmt.Sprintf("Sprintf %%f of %T", a)))
			}
			if p, ok := ex.percentContract(fv); ok {
				dc := ex.digitCount(p)
				out.segs = append(out.segs, Seg{opaque: true, ln: dc, wd: dc, num: p})
			} else {
				// any other float rendering: 1..24 ASCII characters (contract stub)
				l := ex.nondet(64)
				ex.assume(ex.ts.And(ex.ts.Bin(OpSLe, ex.ts.Const(64, 1), l), ex.ts.Bin(OpSLe, l, ex.ts.Const(64, 24))))
				out.segs = append(out.segs, Seg{opaque: true, ln: l, wd: l})
				ex.stubsUsed["float:rendering free (1..24 ASCII)"]++
			}
		case 'c':
			x := a.(*Term)
			// a byte below 0x80 renders as itself; above, as a two-byte UTF-8 sequence
			b8 := ex.ts.Extract(ex.ts.ZExt(x, 64), 7, 0)
			if ex.decide(ex.ts.Bin(OpULt, ex.ts.ZExt(x, 64), ex.ts.Const(64, 0x80))) {
				out = ex.ropeCat(out, ex.toRope(Str{[]*Term{b8}}))
			} else {
				hi := ex.ts.Bin(OpBOr, ex.ts.Const(8, 0xc0), ex.ts.Extract(ex.ts.Bin(OpLShr, ex.ts.ZExt(x, 64), ex.ts.Const(64, 6)), 7, 0))
				lo := ex.ts.Bin(OpBOr, ex.ts.Const(8, 0x80), ex.ts.Bin(OpBAnd, b8, ex.ts.Const(8, 0x3f)))
				out = ex.ropeCat(out, ex.toRope(Str{[]*Term{hi, lo}}))
			}
		case 'x':
			var bs []*Term
			switch x := a.(type) {
			case Slice:
				bs = ex.bytesOf(x)
			case Str:
				bs = x.b
			default:
				panic(unsupported(fmt.Sprintf("Sprintf %%x of %T", a)))
			}
			var hx []*Term
			for _, b := range bs {
				for _, nib := range []*Term{ex.ts.Extract(b, 7, 4), ex.ts.Extract(b, 3, 0)} {
					n8 := ex.ts.ZExt(nib, 8)
					hx = append(hx, ex.ts.Ite(ex.ts.Bin(OpULt, n8, ex.ts.Const(8, 10)), ex.ts.Bin(OpAdd, n8, ex.ts.Const(8, '0')), ex.ts.Bin(OpAdd, n8, ex.ts.Const(8, 'a'-10))))
				}
			}
			if len(hx) > 0 {
				out = ex.ropeCat(out, ex.toRope(Str{hx}))
			}
		default:
			panic(unsupported("Sprintf verb " + string(verb)))
		}
	}
	return ex.flatten(out)
}

// flatten returns a Str when the rope has no opaque segment.
func (ex *Exec) flatten(r Rope) Value {
	var bs []*Term
	for _, sg := range r.segs {
		if sg.opaque {
			return r
		}
		bs = append(bs, sg.b...)
	}
	return Str{bs}
}

type builderState struct{ r Rope }

func (ex *Exec) builder(v Value) *builderState {
	k := recvKey(v)
	if s, ok := ex.side[k]; ok {
		return s.(*builderState)
	}
	s := &builderState{}
	ex.side[k] = s
	return s
}

func (ex *Exec) ropeIntrinsic(fn *ssa.Function, name string, args []Value) (Value, bool) {
	switch name {
	case "fmt.Sprintf":
		var va []Value
		if sl, ok := args[1].(Slice); ok && sl.arr != nil {
			n := int(ex.concretize(sl.len))
			for i := 0; i < n; i++ {
				va = append(va, ex.loadElem(sl.arr, ex.ts.Bin(OpAdd, sl.off, ex.ts.Const(64, uint64(i)))))
			}
		}
		return ex.sprintf(ex.concreteStr(args[0]), va), true
	case "(*strings.Builder).Grow":
		n := args[1].(*Term)
		if ex.decide(ex.ts.Bin(OpSLt, n, ex.ts.Const(64, 0))) {
			panic(goPanic{"strings.Builder.Grow: negative count"})
		}
		return nil, true
	case "(*strings.Builder).WriteString":
		b := ex.builder(args[0])
		r := ex.toRope(args[1])
		b.r = ex.ropeCat(b.r, r)
		return Tuple{ex.ropeLen(r), Iface{}}, true
	case "(*strings.Builder).WriteRune":
		b := ex.builder(args[0])
		rn := args[1].(*Term)
		if seg, ok := ex.side[rn].(Seg); ok {
			b.r.segs = append(b.r.segs, seg)
			return Tuple{seg.ln, Iface{}}, true
		}
		if rn.IsConst() && rn.val < 0x80 {
			b.r = ex.ropeCat(b.r, ex.toRope(ex.strConst(string(rune(rn.val)))))
			return Tuple{ex.ts.Const(64, 1), Iface{}}, true
		}
		panic(unsupported("WriteRune of unknown rune"))
	case "(*strings.Builder).String":
		return ex.builder(args[0]).r, true
	case "strings.Repeat":
		cnt := args[1].(*Term)
		if ex.decide(ex.ts.Bin(OpSLt, cnt, ex.ts.Const(64, 0))) {
			panic(goPanic{"strings: negative Repeat count"})
		}
		unit := ex.toRope(args[0])
		ul, uw := ex.ropeLen(unit), ex.ropeWidth(unit)
		// monitor (as for make), switched on by the run's REPEATMON bound: a repetition must stay below 2 GiB + 64 KiB of result
		if ex.bounds["REPEATMON"] != 0 && ex.decide(ex.ts.Bin(OpSLt, ex.ts.Const(64, 1<<31+1<<16), ex.ts.Bin(OpMul, ul, cnt))) {
			panic(goPanic{"allocation of more than 2 GiB on the strength of an input-derived length"})
		}
		return Rope{[]Seg{{opaque: true, ln: ex.ts.Bin(OpMul, ul, cnt), wd: ex.ts.Bin(OpMul, uw, cnt)}}}, true
	case "strings.TrimSpace":
		return args[0], true
	case "github.com/mattn/go-runewidth.StringWidth":
		return ex.ropeWidth(ex.toRope(args[0])), true
	case "github.com/mattn/go-runewidth.RuneWidth":
		rn := args[0].(*Term)
		if seg, ok := ex.side[rn].(Seg); ok {
			return seg.wd, true
		}
		if rn.IsConst() && rn.val >= 0x20 && rn.val < 0x7f {
			return ex.ts.Const(64, 1), true
		}
		panic(unsupported("RuneWidth of unknown rune"))
	case "math.Round":
		return FVal{"round", []Value{args[0]}}, true
	case "math.Floor", "math.Ceil", "math.Trunc", "math.Abs":
		return FVal{strings.ToLower(name[5:]), []Value{args[0]}}, true
	case "math.Inf", "math.NaN", "math.Float64frombits":
		return FVal{"free", nil}, true
	case "math.IsNaN", "math.IsInf":
		ex.stubsUsed["float:comparison free"]++
		return ex.nondet(BoolSort), true
	}
	if fn.Pkg == ex.pkg {
		switch fn.Name() {
		case "verifAbstractName":
			k := int(ex.concretize(args[0].(*Term)))
			var r Rope
			for i := 0; i < k; i++ {
				rn := ex.nondet(32)
				w := ex.nondet(64)
				l := ex.nondet(64)
				ex.assume(ex.ts.Bin(OpULe, w, ex.ts.Const(64, 2)))
				ex.assume(ex.ts.Bin(OpULe, l, ex.ts.Const(64, 4)))
				ex.assume(ex.ts.Or(ex.ts.Not(ex.ts.Eq(l, ex.ts.Const(64, 0))), ex.ts.Eq(w, ex.ts.Const(64, 0))))
				seg := Seg{opaque: true, ln: l, wd: w, rn: rn}
				ex.side[rn] = seg
				r.segs = append(r.segs, seg)
			}
			return r, true
		case "verifOpaqueASCII":
			lo, hi := args[0].(*Term), args[1].(*Term)
			l := ex.nondet(64)
			ex.assume(ex.ts.And(ex.ts.Bin(OpSLe, lo, l), ex.ts.Bin(OpSLe, l, hi)))
			return Rope{[]Seg{{opaque: true, ln: l, wd: l}}}, true
		case "verifDisplayWidth":
			return ex.ropeWidth(ex.toRope(args[0])), true
		}
	}
	return nil, false
}

// floatConvert handles convert int <- float64 for the known progress-bar pattern; otherwise a free value.
func (ex *Exec) floatToInt(v FVal) *Term {
	r := ex.nondet(64)
	if v.op == "round" {
		if d, ok := v.args[0].(FVal); ok && d.op == "/" {
			if m, ok := d.args[0].(FVal); ok && m.op == "*" {
				t, ok1 := ex.fromInt(m.args[0])
				s, ok2 := ex.fromInt(m.args[1])
				z, ok3 := ex.fromInt(d.args[1])
				if ok1 && ok2 && ok3 {
					zero := ex.ts.Const(64, 0)
					inRange := ex.ts.And(ex.ts.And(ex.ts.Bin(OpSLe, zero, s), ex.ts.Bin(OpSLe, s, z)), ex.ts.And(ex.ts.Bin(OpSLt, zero, z), ex.ts.Bin(OpSLe, zero, t)))
					ex.assume(ex.ts.Or(ex.ts.Not(inRange), ex.ts.And(ex.ts.Bin(OpSLe, zero, r), ex.ts.Bin(OpSLe, r, t))))
					// s >= 2z > 0 and 1 <= t <= 2^20  =>  r >= 2t
					big := ex.ts.And(ex.ts.And(ex.ts.Bin(OpSLt, zero, z), ex.ts.Bin(OpSLe, z, ex.ts.Const(64, 1<<61))), ex.ts.And(ex.ts.Bin(OpSLe, ex.ts.Bin(OpAdd, z, z), s), ex.ts.And(ex.ts.Bin(OpSLe, ex.ts.Const(64, 1), t), ex.ts.Bin(OpSLe, t, ex.ts.Const(64, 1<<20)))))
					ex.assume(ex.ts.Or(ex.ts.Not(big), ex.ts.Bin(OpSLe, ex.ts.Bin(OpAdd, t, t), r)))
					ex.stubsUsed["float:R(t,s,z)"]++
					return r
				}
			}
		}
	}
	ex.stubsUsed["float:free"]++
	return r
}

// percentContract recognises  round(float64(s) * 100.0 / float64(z))  and returns a fresh integer P under the contract
// IEEE arithmetic gives it:  0 <= s <= z, z > 0  =>  0 <= P <= 100,  s = z => P = 100,  and P is monotone in s for a
// fixed z (multiplication by a positive constant, division by a positive value and rounding are monotone) — the
// latter asserted against every earlier rendering of the path.
type pctRec struct{ s, z, p *Term }

func (ex *Exec) percentContract(v FVal) (*Term, bool) {
	if v.op != "round" {
		return nil, false
	}
	d, ok := v.args[0].(FVal)
	if !ok || d.op != "/" {
		return nil, false
	}
	m, ok := d.args[0].(FVal)
	if !ok || m.op != "*" {
		return nil, false
	}
	s, ok1 := ex.fromInt(m.args[0])
	c, ok2 := m.args[1].(FVal)
	z, ok3 := ex.fromInt(d.args[1])
	if !ok1 || !ok2 || !ok3 || c.op != "const:100" {
		return nil, false
	}
	ts := ex.ts
	zero, hundred := ts.Const(64, 0), ts.Const(64, 100)
	p := ex.nondet(64)
	valid := ts.And(ts.And(ts.Bin(OpSLe, zero, s), ts.Bin(OpSLe, s, z)), ts.Bin(OpSLt, zero, z))
	ex.assume(ts.Or(ts.Not(valid), ts.And(ts.Bin(OpSLe, zero, p), ts.Bin(OpSLe, p, hundred))))
	ex.assume(ts.Or(ts.Not(ts.And(valid, ts.Eq(s, z))), ts.Eq(p, hundred)))
	recs, _ := ex.side["pct"].([]pctRec)
	for _, q := range recs {
		same := ts.And(valid, ts.Eq(q.z, z))
		ex.assume(ts.Or(ts.Not(ts.And(same, ts.Bin(OpSLe, q.s, s))), ts.Bin(OpSLe, q.p, p)))
		ex.assume(ts.Or(ts.Not(ts.And(same, ts.Bin(OpSLe, s, q.s))), ts.Bin(OpSLe, p, q.p)))
	}
	ex.side["pct"] = append(recs, pctRec{s, z, p})
	ex.stubsUsed["float:percentage contract (range, 100 at the end, monotone in the position)"]++
	return p, true
}

func (ex *Exec) fromInt(v Value) (*Term, bool) {
	if f, ok := v.(FVal); ok && f.op == "fromint" {
		return f.args[0].(*Term), true
	}
	return nil, false
}

var _ = types.Typ
