package main

import (
	"fmt"
	"go/types"
	"strings"

	"golang.org/x/tools/go/ssa"
)

type Native struct {
	name string
	f    func(ex *Exec, args []Value) Value
}

type CtxObj struct {
	done  *Chan
	err   Value // Iface
	cause Value
}

type wgState struct{ n int }
type muState struct{ held bool }

func recvKey(v Value) interface{} {
	p, ok := v.(Ptr)
	if !ok || p.loc == nil {
		panic(unsupported(fmt.Sprintf("sync object receiver %T", v)))
	}
	return p.loc
}

func (ex *Exec) concIntrinsic(fn *ssa.Function, args []Value) (Value, bool) {
	name := fn.String()
	switch {
	case strings.HasPrefix(name, "sync/atomic.Load"):
		ex.syncPoint("atomic.Load")
		return ex.load(args[0], nil), true
	case strings.HasPrefix(name, "sync/atomic.Store"):
		ex.syncPoint("atomic.Store")
		ex.store(args[0], args[1])
		return nil, true
	case strings.HasPrefix(name, "sync/atomic.CompareAndSwap"):
		ex.syncPoint("atomic.CAS")
		cur := ex.load(args[0], nil)
		eq := ex.valueEq(cur, args[1])
		if ex.decide(eq) {
			ex.store(args[0], args[2])
			return ex.ts.T, true
		}
		return ex.ts.F, true
	case strings.HasPrefix(name, "sync/atomic.Swap"):
		ex.syncPoint("atomic.Swap")
		cur := ex.load(args[0], nil)
		ex.store(args[0], args[1])
		return cur, true
	case strings.HasPrefix(name, "sync/atomic.And"), strings.HasPrefix(name, "sync/atomic.Or"):
		ex.syncPoint("atomic.AndOr")
		cur := ex.load(args[0], nil).(*Term)
		op := OpBAnd
		if strings.HasPrefix(name, "sync/atomic.Or") {
			op = OpBOr
		}
		ex.store(args[0], ex.ts.Bin(op, cur, args[1].(*Term)))
		return cur, true
	case strings.HasPrefix(name, "sync/atomic.Add"):
		ex.syncPoint("atomic.Add")
		cur := ex.load(args[0], nil).(*Term)
		nv := ex.ts.Bin(OpAdd, cur, args[1].(*Term))
		ex.store(args[0], nv)
		return nv, true
	}
	switch name {
	case "(*sync.WaitGroup).Add":
		st := ex.wg(args[0])
		st.n += int(int64(ex.concretize(args[1].(*Term))))
		if st.n < 0 {
			panic(goPanic{"sync: negative WaitGroup counter"})
		}
		return nil, true
	case "(*sync.WaitGroup).Done":
		st := ex.wg(args[0])
		st.n--
		if st.n < 0 {
			panic(goPanic{"sync: negative WaitGroup counter"})
		}
		return nil, true
	case "(*sync.WaitGroup).Wait":
		st := ex.wg(args[0])
		ex.wait(func() bool { return st.n == 0 }, "WaitGroup.Wait")
		return nil, true
	case "(*sync.Mutex).Lock":
		m := ex.mu(args[0])
		ex.syncPoint("Mutex.Lock")
		ex.wait(func() bool { return !m.held }, "Mutex.Lock")
		m.held = true
		return nil, true
	case "(*sync.Mutex).Unlock":
		m := ex.mu(args[0])
		if !m.held {
			panic(goPanic{"sync: unlock of unlocked mutex"})
		}
		m.held = false
		return nil, true
	case "context.Background":
		return Iface{t: ctxType, v: &CtxObj{}}, true
	case "context.WithCancelCause":
		c := &CtxObj{done: &Chan{cap: 0, elemT: types.NewStruct(nil, nil)}, err: Iface{}, cause: Iface{}}
		cancel := Native{"cancelCause", func(ex *Exec, a []Value) Value {
			if c.done.closed {
				return nil
			}
			canceled := ex.load(Ptr{loc: ex.globalLoc(ex.extGlobal("context", "Canceled"))}, nil)
			c.err = canceled
			if a[0].(Iface).t == nil {
				c.cause = canceled
			} else {
				c.cause = a[0]
			}
			c.done.closed = true
			return nil
		}}
		return Tuple{Iface{t: ctxType, v: c}, cancel}, true
	case "context.Cause":
		c := ex.findCtx(args[0])
		if c == nil {
			panic(unsupported("context.Cause on unknown ctx"))
		}
		return c.cause, true
	case "time.Sleep":
		if ex.bounds["SLEEPBLOCKS"] != 0 {
			// the sleeper stays parked until the harness lets time pass (verifAdvanceTime)
			at := ex.clock
			wake := ex.deadlineOf(args[0])
			ex.wait(func() bool { return ex.clock > at || (wake >= 0 && ex.clk().ns >= wake) }, "time.Sleep")
			return nil, true
		}
		if c := ex.clk(); !c.symbolic {
			if d, ok := args[0].(*Term); ok {
				c.now = ex.ts.Bin(OpAdd, c.now, d) // sleeping takes time on the frozen clock
				if d.IsConst() {
					c.ns += int64(d.val)
				}
			}
		}
		ex.yield()
		return nil, true
	}
	return nil, false
}

var ctxType = types.NewNamed(types.NewTypeName(0, nil, "ctxModel", nil), types.NewStruct(nil, nil), nil)

func (ex *Exec) extGlobal(pkg, name string) *ssa.Global {
	for _, p := range ex.prog.AllPackages() {
		if p.Pkg.Path() == pkg {
			if g, ok := p.Members[name].(*ssa.Global); ok {
				return g
			}
		}
	}
	panic("no global " + pkg + "." + name)
}

func (ex *Exec) findCtx(v Value) *CtxObj {
	switch x := v.(type) {
	case Iface:
		return ex.findCtx(x.v)
	case *CtxObj:
		return x
	case Ptr:
		if so, ok := x.loc.(*StructObj); ok && len(so.fields) > 0 {
			if c, ok := so.fields[0].(*Cell); ok {
				return ex.findCtx(c.v)
			}
		}
	}
	return nil
}

func (ex *Exec) ctxMethod(c *CtxObj, name string, args []Value) Value {
	switch name {
	case "Done":
		if c.done == nil {
			return (*Chan)(nil)
		}
		return c.done
	case "Err":
		if c.err == nil {
			return Iface{}
		}
		return c.err
	}
	panic(unsupported("context method " + name))
}

func (ex *Exec) wg(v Value) *wgState {
	k := recvKey(v)
	if s, ok := ex.side[k]; ok {
		return s.(*wgState)
	}
	s := &wgState{}
	ex.side[k] = s
	return s
}

func (ex *Exec) mu(v Value) *muState {
	k := recvKey(v)
	if s, ok := ex.side[k]; ok {
		return s.(*muState)
	}
	s := &muState{}
	ex.side[k] = s
	return s
}

// syncPoint is a potential preemption point when exploring schedules.
func (ex *Exec) syncPoint(what string) {
	if ex.exploreSched {
		ex.yield()
	}
}
