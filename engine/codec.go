package main

import (
	"crypto/md5"
	"fmt"
	"go/types"
	"strings"

	"golang.org/x/tools/go/ssa"
)

// Third-party / assembly-backed codecs are not encoded. On the paths where they occur they are replaced by:
//   - md5: a hasher object that accumulates byte terms; Sum is the real MD5 when the content is concrete, otherwise
//     16 fresh symbolic bytes per distinct content with  digest(a)=digest(b) <=> a=b  asserted pairwise (collision-freedom
//     is an ASSUMPTION of every check that uses it);
//   - streaming base64 and zstd coders: identity coders that pass Write/Read through to the wrapped writer/reader.

type HashObj struct {
	content []*Term
}

type CoderObj struct {
	kind  string // b64enc b64dec zstdenc zstddec
	inner Value  // the wrapped io.Writer / io.Reader (an Iface)
}

type digestRec struct {
	content []*Term
	digest  []*Term
}

var hashT = types.NewPointer(types.NewNamed(types.NewTypeName(0, nil, "md5Model", nil), types.NewStruct(nil, nil), nil))
var coderT = types.NewPointer(types.NewNamed(types.NewTypeName(0, nil, "coderModel", nil), types.NewStruct(nil, nil), nil))

func (ex *Exec) digestOf(content []*Term) []*Term {
	recs, _ := ex.side["digests"].([]*digestRec)
	for _, r := range recs {
		if len(r.content) == len(content) {
			same := true
			for i := range content {
				if r.content[i] != content[i] {
					same = false
					break
				}
			}
			if same {
				return r.digest
			}
		}
	}
	d := make([]*Term, 16)
	if allConst(content) {
		raw := make([]byte, len(content))
		for i, b := range content {
			raw[i] = byte(b.val)
		}
		sum := md5.Sum(raw)
		for i := range d {
			d[i] = ex.ts.Const(8, uint64(sum[i]))
		}
	} else {
		for i := range d {
			d[i] = ex.nondet(8)
		}
		ex.stubsUsed["md5: digest(a)=digest(b) <=> a=b (assumed)"]++
	}
	// collision-freedom against every digest seen so far, concrete ones included
	for _, r := range recs {
		deq := ex.termsEq(d, r.digest)
		ceq := ex.termsEq(content, r.content)
		ex.assume(ex.ts.Eq(deq, ceq))
	}
	recs = append(recs, &digestRec{content, d})
	ex.side["digests"] = recs
	return d
}

// callMethod invokes an exported method on an interface value through the program's method sets.
func (ex *Exec) callMethod(recv Value, name string, args ...Value) Value {
	ifc, ok := recv.(Iface)
	if !ok || ifc.t == nil {
		panic(goPanic{"nil interface method call " + name})
	}
	switch o := ifc.v.(type) {
	case *CoderObj:
		return ex.coderMethod(o, name, args)
	case *WriterStub, *HashObj:
		panic(unsupported("callMethod on stub object " + name))
	}
	sel := ex.prog.MethodSets.MethodSet(ifc.t).Lookup(nil, name)
	if sel == nil {
		panic(unsupported("no method " + name + " on " + ifc.t.String()))
	}
	fn := ex.prog.MethodValue(sel)
	return ex.call(Closure{fn: fn}, append([]Value{ifc.v}, args...), nil)
}

func (ex *Exec) coderMethod(c *CoderObj, name string, args []Value) Value {
	switch name {
	case "Write":
		return ex.callMethod(c.inner, "Write", args[0])
	case "Read":
		return ex.callMethod(c.inner, "Read", args[0])
	case "Flush":
		return Iface{}
	case "Close":
		if c.kind == "zstddec" {
			return nil
		}
		return Iface{} // closing the coder does not close the wrapped stream (as in the libraries)
	}
	panic(unsupported("coder method " + name))
}

func (ex *Exec) hashMethod(h *HashObj, name string, args []Value) Value {
	switch name {
	case "Write":
		b := ex.bytesOf(args[0])
		h.content = append(h.content, b...)
		return Tuple{ex.ts.Const(64, uint64(len(b))), Iface{}}
	case "Sum":
		pre := ex.bytesOf(args[0])
		return ex.mkByteSlice(append(append([]*Term{}, pre...), ex.digestOf(h.content)...))
	case "Reset":
		h.content = nil
		return nil
	case "Size":
		return ex.ts.Const(64, 16)
	case "BlockSize":
		return ex.ts.Const(64, 64)
	}
	panic(unsupported("hash method " + name))
}

func (ex *Exec) codecIntrinsic(fn *ssa.Function, name string, args []Value) (Value, bool) {
	switch name {
	case "crypto/md5.New":
		return Iface{t: hashT, v: &HashObj{}}, true
	case "crypto/md5.Sum":
		arr := ex.newArray(types.Typ[types.Byte], 16)
		for i, t := range ex.digestOf(ex.bytesOf(args[0])) {
			arr.vals[i] = t
		}
		return arr, true
	case "(*encoding/base64.Encoding).DecodeString":
		// only reached from the OSC52 clipboard helper: the clipboard is outside every claim
		return Tuple{ex.zero(types.NewSlice(types.Typ[types.Byte])), ex.errValue("base64 (clipboard stub)")}, true
	case "github.com/atotto/clipboard.WriteAll":
		return Iface{}, true
	case "encoding/base64.NewEncoder":
		return Iface{t: coderT, v: &CoderObj{kind: "b64enc", inner: args[1]}}, true
	case "encoding/base64.NewDecoder":
		return Iface{t: coderT, v: &CoderObj{kind: "b64dec", inner: args[1]}}, true
	case "github.com/klauspost/compress/zstd.NewWriter":
		return Tuple{&CoderObj{kind: "zstdenc", inner: args[0]}, Iface{}}, true
	case "github.com/klauspost/compress/zstd.NewReader":
		return Tuple{&CoderObj{kind: "zstddec", inner: args[0]}, Iface{}}, true
	}
	if name == "(*github.com/klauspost/compress/zstd.Encoder).EncodeAll" {
		// one-shot compression of a sample (the compressibility probe): only the length of the result is used, and only
		// against one threshold: the stub returns either an empty result or one as long as the input plus the frame header
		src := args[1].(Slice)
		n := 0
		if ex.decide(ex.nondet(BoolSort)) {
			n = int(ex.concretize(src.len)) + 32
		}
		out := make([]*Term, n)
		for i := range out {
			out[i] = ex.ts.Const(8, 0)
		}
		ex.stubsUsed["zstd.EncodeAll: result either empty or len+32 (compressible / incompressible sample)"]++
		return ex.mkByteSlice(out), true
	}
	if strings.HasPrefix(name, "(*github.com/klauspost/compress/zstd.Encoder).") || strings.HasPrefix(name, "(*github.com/klauspost/compress/zstd.Decoder).") {
		c, ok := args[0].(*CoderObj)
		if !ok {
			panic(unsupported("zstd method on " + fmt.Sprintf("%T", args[0])))
		}
		return ex.coderMethod(c, fn.Name(), args[1:]), true
	}
	return nil, false
}
