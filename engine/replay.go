package main

import (
	"bytes"
	"context"
	"encoding/json"
	"fmt"
	"go/ast"
	"go/parser"
	"go/token"
	"os"
	"os/exec"
	"path/filepath"
	"sort"
	"strings"
	"time"
)

// nativeReplayer builds the harness files of one property together with verif_native.go into a test binary of the
// REAL package (go test -c -overlay, nothing is written into /repo) and runs solver models through it.
type nativeReplayer struct {
	memLimitKB int // run replays under ulimit -v (allocation bombs then die with the runtime's out-of-memory error)
	dir    string
	bin    string
	nruns  int
	buildS float64
}

type nativeOutcome struct {
	reached   []string
	violation string
	panicked  bool
	panicMsg  string
	blockedExpected bool
	assumeFailed    bool
	exhausted bool
	deadlock  bool
	timedOut  bool
	done      bool
	raw       string
	probes    map[string]int64
}

func harnessEntries(files []string) ([]string, error) {
	var out []string
	fset := token.NewFileSet()
	for _, f := range files {
		af, err := parser.ParseFile(fset, filepath.Join(verifDir, "harness", f), nil, 0)
		if err != nil {
			return nil, err
		}
		for _, d := range af.Decls {
			if fd, ok := d.(*ast.FuncDecl); ok && fd.Recv == nil && (strings.HasPrefix(fd.Name.Name, "zzH_") || strings.HasPrefix(fd.Name.Name, "zzP_")) && fd.Type.Params.NumFields() == 0 {
				out = append(out, fd.Name.Name)
			}
		}
	}
	sort.Strings(out)
	return out, nil
}

func goEnv() []string {
	return append(os.Environ(), "GOFLAGS=-mod=mod", "GOPROXY=off", "GOSUMDB=off", "GOTOOLCHAIN=local")
}

func newNativeReplayer(spec *Spec) (*nativeReplayer, error) {
	t0 := time.Now()
	dir, err := os.MkdirTemp("", "vsym-replay-")
	if err != nil {
		return nil, err
	}
	r := &nativeReplayer{dir: dir, bin: filepath.Join(dir, "replay.test")}
	entries, err := harnessEntries(spec.Harness)
	if err != nil {
		return nil, err
	}
	var tb strings.Builder
	tb.WriteString("package trzsz\n\nimport \"testing\"\n\nfunc TestVerifReplay(t *testing.T) {\n\tverifReplayMain(map[string]func(){\n")
	for _, e := range entries {
		fmt.Fprintf(&tb, "\t\t%q: %s,\n", e, e)
	}
	tb.WriteString("\t})\n}\n")
	testFile := filepath.Join(dir, "replay_test.go")
	os.WriteFile(testFile, []byte(tb.String()), 0o644)
	repl := map[string]string{
		filepath.Join(repoPkgDir, "zz_verif_replay_test.go"): testFile,
		filepath.Join(repoPkgDir, "zz_verif_native.go"):      filepath.Join(verifDir, "harness", "verif_native.go"),
	}
	for _, h := range spec.Harness {
		repl[filepath.Join(repoPkgDir, "zz_verif_"+h)] = filepath.Join(verifDir, "harness", h)
	}
	// the package's own test files are not part of the replay binary (they may not even compile against a scaled source)
	if tests, _ := filepath.Glob(filepath.Join(repoPkgDir, "*_test.go")); true {
		for _, tf := range tests {
			repl[tf] = ""
		}
	}
	if spec.useScaled {
		rw, err := rewrittenSources(spec)
		if err != nil {
			return nil, err
		}
		i := 0
		for p, b := range rw {
			f := filepath.Join(dir, fmt.Sprintf("scaled%d.go", i))
			i++
			os.WriteFile(f, b, 0o644)
			repl[p] = f
		}
	}
	ovb, _ := json.Marshal(map[string]interface{}{"Replace": repl})
	ovFile := filepath.Join(dir, "overlay.json")
	os.WriteFile(ovFile, ovb, 0o644)
	cmd := exec.Command("go", "test", "-c", "-vet=off", "-o", r.bin, "-overlay", ovFile, "./trzsz")
	cmd.Dir = repoDir
	cmd.Env = goEnv()
	out, err := cmd.CombinedOutput()
	if err != nil {
		r.cleanup()
		return nil, fmt.Errorf("go test -c: %v\n%s", err, out)
	}
	r.buildS = time.Since(t0).Seconds()
	fmt.Printf("native replay binary built in %.1fs\n", r.buildS)
	return r, nil
}

func (r *nativeReplayer) cleanup() { os.RemoveAll(r.dir) }

func (r *nativeReplayer) run(entry string, bounds map[string]int64, inputs []NondetVal, timeout time.Duration, env ...[]FSPre) nativeOutcome {
	r.nruns++
	f := filepath.Join(r.dir, fmt.Sprintf("in%d.json", r.nruns))
	var fsPre []FSPre
	if len(env) > 0 {
		fsPre = env[0]
	}
	b, _ := json.Marshal(map[string]interface{}{"entry": entry, "bounds": bounds, "inputs": inputs, "fs_pre": fsPre})
	os.WriteFile(f, b, 0o644)
	defer os.Remove(f)
	work := filepath.Join(r.dir, fmt.Sprintf("w%d", r.nruns))
	os.MkdirAll(work, 0o755)
	defer os.RemoveAll(work)
	ctx, cancel := context.WithTimeout(context.Background(), timeout)
	defer cancel()
	cmd := exec.CommandContext(ctx, r.bin, "-test.run", "^TestVerifReplay$", "-test.timeout", "0")
	if r.memLimitKB > 0 {
		cmd = exec.CommandContext(ctx, "sh", "-c", fmt.Sprintf("ulimit -v %d; exec %s -test.run '^TestVerifReplay$' -test.timeout 0", r.memLimitKB, r.bin))
	}
	cmd.Dir = work
	cmd.Env = append(os.Environ(), "VERIF_REPLAY="+f, "VERIF_WORK="+work)
	var buf bytes.Buffer
	cmd.Stdout = &buf
	cmd.Stderr = &buf
	cmd.Run()
	var o nativeOutcome
	o.raw = buf.String()
	if ctx.Err() != nil {
		o.timedOut = true
	}
	for _, ln := range strings.Split(o.raw, "\n") {
		ln = strings.TrimRight(ln, "\r")
		if i := strings.Index(ln, "VERIF-"); i > 0 {
			ln = ln[i:] // the code under test may have written terminal control sequences in front of our line
		}
		switch {
		case strings.HasPrefix(ln, "VERIF-REACH: "):
			o.reached = append(o.reached, strings.TrimPrefix(ln, "VERIF-REACH: "))
		case strings.HasPrefix(ln, "VERIF-VIOLATION: ") && o.violation == "":
			o.violation = strings.TrimPrefix(ln, "VERIF-VIOLATION: ")
		case strings.HasPrefix(ln, "VERIF-PROBE: "):
			kv := strings.SplitN(strings.TrimPrefix(ln, "VERIF-PROBE: "), "=", 2)
			if len(kv) == 2 {
				var v int64
				fmt.Sscan(kv[1], &v)
				if o.probes == nil {
					o.probes = map[string]int64{}
				}
				o.probes[kv[0]] = v
			}
		case ln == "VERIF-BLOCKED-EXPECTED":
			o.blockedExpected = true
		case ln == "VERIF-ASSUME-FAILED":
			o.assumeFailed = true
		case ln == "VERIF-INPUT-EXHAUSTED":
			o.exhausted = true
		case ln == "VERIF-DONE":
			o.done = true
		case strings.HasPrefix(ln, "panic: ") && !o.panicked:
			o.panicked = true
			o.panicMsg = strings.TrimPrefix(ln, "panic: ")
		case strings.HasPrefix(ln, "fatal error: all goroutines are asleep"):
			o.deadlock = true
		case strings.HasPrefix(ln, "fatal error: ") && !o.panicked:
			o.panicked = true
			o.panicMsg = ln
		}
	}
	sort.Strings(o.reached)
	o.reached = dedupe(o.reached)
	return o
}

func (o nativeOutcome) summary() string {
	switch {
	case o.violation != "":
		return "violation:" + o.violation
	case o.panicked:
		return "panic:" + o.panicMsg
	case o.assumeFailed:
		return "assume-failed"
	case o.exhausted:
		return "input-exhausted"
	case o.blockedExpected:
		return fmt.Sprintf("blocked-expected %v", o.reached)
	case o.timedOut:
		return "timeout"
	case o.deadlock:
		return "deadlock"
	case o.done:
		return fmt.Sprintf("ok %v", o.reached)
	}
	s := o.raw
	if len(s) > 300 {
		s = s[len(s)-300:]
	}
	return "unrecognised: " + s
}

func (o nativeOutcome) matches(v Violation) bool {
	if o.assumeFailed || o.exhausted {
		return false
	}
	switch v.kind {
	case "assert":
		return o.violation == v.msg
	case "panic":
		return o.panicked
	case "blocked":
		return o.violation == "blocked"
	case "noblock":
		return o.violation == "noblock"
	case "deadlock":
		return o.deadlock || o.timedOut || o.violation == "blocked"
	}
	return false
}

func (o nativeOutcome) agrees(s PathSample) bool {
	if o.violation != "" || o.panicked || o.assumeFailed || o.exhausted || o.timedOut {
		return false
	}
	want := append([]string{}, s.Reached...)
	sort.Strings(want)
	if strings.Join(want, "\x00") != strings.Join(o.reached, "\x00") {
		return false
	}
	if s.Status == "blocked-expected" {
		return o.blockedExpected
	}
	return o.done
}

// replayMain implements `vsym replay <file>`: rebuild the harness against /repo's current tree and run the recorded inputs.
func replayMain(args []string) int {
	if len(args) < 1 {
		fmt.Println("usage: vsym replay <replay.json>")
		return 2
	}
	var rf ReplayFile
	if err := readJSON(args[0], &rf); err != nil {
		fmt.Println(err)
		return 2
	}
	spec := &Spec{Property: rf.Property, Harness: rf.Harness, Rewrites: rf.Rewrites, useScaled: len(rf.Rewrites) > 0}
	rep, err := newNativeReplayer(spec)
	if err != nil {
		fmt.Println(err)
		return 2
	}
	defer rep.cleanup()
	out := rep.run(rf.Entry, rf.Bounds, rf.Inputs, 30*time.Second, rf.Env)
	fmt.Println(out.raw)
	v := Violation{kind: rf.Kind, msg: rf.Assertion}
	if out.matches(v) {
		fmt.Printf("REPRODUCED property=%s entry=%s kind=%s what=%q\n", rf.Property, rf.Entry, rf.Kind, rf.Assertion)
		return 1
	}
	fmt.Printf("NOT-REPRODUCED property=%s entry=%s (native outcome: %s)\n", rf.Property, rf.Entry, out.summary())
	return 0
}

func dedupe(s []string) []string {
	var out []string
	for i, x := range s {
		if i == 0 || x != s[i-1] {
			out = append(out, x)
		}
	}
	return out
}
