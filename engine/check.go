package main

import (
	"encoding/json"
	"fmt"
	"os"
	"path/filepath"
	"regexp"
	"sort"
	"strings"
	"time"
)

// verifDir is where specs, harnesses, known findings, evidence and replays live (/verif; $VERIF_DIR for snapshots).
var verifDir = func() string {
	if d := os.Getenv("VERIF_DIR"); d != "" {
		return d
	}
	return "/verif"
}()

// Spec is /verif/checks/<id>.json: which harness entry points decide a property, under which bounds.
type Spec struct {
	Property    string    `json:"property"`
	Harness     []string  `json:"harness"` // files under /verif/harness
	Runs        []RunSpec `json:"runs"`
	Assumptions []string  `json:"assumptions"`
	Outside     []string  `json:"outside_bounds"`
	Explanation string    `json:"explanation"`
	MemLimitMB  int       `json:"mem_limit_mb"`  // native replays run under this address-space limit
	Probes      []string  `json:"probes"`        // native functions run once on the real build; their VERIF-PROBE k=v lines become bounds
	Rewrites    []Rewrite `json:"scaled_source"` // mechanical rewrites of /repo's current source used by the runs marked "scaled"
	useScaled   bool
}

// Rewrite scales a constant of the code under test down (e.g. a 10 MiB block size to a few bytes) so that behaviour
// at and across the constant's boundaries falls inside small bounds. It is applied to the file as it is in /repo's
// working tree on every run, must match exactly once, and is used for the symbolic run and the native replay alike.
type Rewrite struct {
	File    string `json:"file"` // relative to the repository root
	Match   string `json:"match"`
	Replace string `json:"replace"`
	Why     string `json:"why"`
	All     bool   `json:"all"` // every occurrence (at least one) instead of exactly one
}

// rewrittenSources returns absolute path -> rewritten content.
func rewrittenSources(spec *Spec) (map[string][]byte, error) {
	out := map[string][]byte{}
	for _, rw := range spec.Rewrites {
		p := filepath.Join(repoDir, rw.File)
		b, ok := out[p]
		if !ok {
			var err error
			if b, err = os.ReadFile(p); err != nil {
				return nil, err
			}
		}
		re, err := regexp.Compile(rw.Match)
		if err != nil {
			return nil, err
		}
		if n := len(re.FindAllIndex(b, -1)); n != 1 && !(rw.All && n >= 1) {
			return nil, fmt.Errorf("scaled_source: %q matches %d times in %s (must match exactly once)", rw.Match, n, rw.File)
		}
		out[p] = re.ReplaceAll(b, []byte(rw.Replace))
	}
	return out, nil
}

type RunSpec struct {
	Name       string           `json:"name"`
	Entry      string           `json:"entry"`
	Tiers      []string         `json:"tiers"`
	Bounds     map[string]int64 `json:"bounds"`
	Solver     string           `json:"solver"`
	Sched      bool             `json:"sched"`
	Preempt    *int             `json:"preempt"`
	Unwind     int              `json:"unwind"`
	MaxPaths   int              `json:"max_paths"`
	MaxSteps   int              `json:"max_steps"`
	TimeoutS   int              `json:"timeout_s"`
	QueryMs    int              `json:"query_ms"`
	Reach      []string         `json:"reach"`
	Replay     string           `json:"replay"` // native | interp
	AllowPanic bool             `json:"allow_panic"`
	Cross      string           `json:"cross_solver"` // thorough: re-run on this solver and compare
	What       string           `json:"what"`
	NativeS    int              `json:"native_timeout_s"`          // wall-clock limit of one native replay (default 20)
	Scaled     bool             `json:"scaled"`                    // run against the spec's scaled_source rewrites
	NativeRacy bool             `json:"native_schedule_dependent"` // the harness asks for inputs depending on how far real goroutines got; a native run that takes another harness branch is not comparable
}

type KnownFinding struct {
	Property string `json:"property"`
	Entry    string `json:"entry"`
	Kind     string `json:"kind"`
	MsgRe    string `json:"msg_re"`
	What     string `json:"what"`
	Status   string `json:"status"` // known | fixed
	Commit   string `json:"commit,omitempty"`
}

func inTier(r RunSpec, tier string) bool {
	if len(r.Tiers) == 0 {
		return true
	}
	for _, t := range r.Tiers {
		if t == tier {
			return true
		}
	}
	return false
}

type confirmedViolation struct {
	v      Violation
	run    string
	replay string // path of the replay file
	native string // reproduced | not-run | ...
	known  *KnownFinding
	count  int
	scaled bool
}

func violKey(v Violation) string { return v.entry + "|" + v.kind + "|" + v.msg + "|" + v.detail }

func readJSON(path string, v interface{}) error {
	b, err := os.ReadFile(path)
	if err != nil {
		return err
	}
	return json.Unmarshal(b, v)
}

func harnessOverlay(spec *Spec, native bool) (map[string][]byte, error) {
	ov := map[string][]byte{}
	add := func(name string) error {
		b, err := os.ReadFile(filepath.Join(verifDir, "harness", name))
		if err != nil {
			return err
		}
		ov[filepath.Join(repoPkgDir, "zz_verif_"+name)] = b
		return nil
	}
	if native {
		if err := add("verif_native.go"); err != nil {
			return nil, err
		}
	} else {
		if err := add("verif_decl.go"); err != nil {
			return nil, err
		}
	}
	for _, h := range spec.Harness {
		if err := add(h); err != nil {
			return nil, err
		}
	}
	if spec.useScaled {
		rw, err := rewrittenSources(spec)
		if err != nil {
			return nil, err
		}
		for p, b := range rw {
			ov[p] = b
		}
	}
	return ov, nil
}

// checkMain implements `vsym check <ID> --tier quick|thorough`.
func checkMain(args []string) int {
	id := ""
	tier := os.Getenv("VERIF_TIER")
	if tier == "" {
		tier = "quick"
	}
	seed := int64(0)
	fmt.Sscan(os.Getenv("VERIF_SEED"), &seed)
	only := ""
	keep := false
	for i := 0; i < len(args); i++ {
		switch args[i] {
		case "--tier":
			i++
			tier = args[i]
		case "--seed":
			i++
			fmt.Sscan(args[i], &seed)
		case "--only":
			i++
			only = args[i]
		case "--keep":
			keep = true
		default:
			id = args[i]
		}
	}
	if id == "" {
		fmt.Println("usage: vsym check <ID> [--tier quick|thorough] [--seed N] [--only run]")
		return 2
	}
	t0 := time.Now()
	var spec Spec
	if err := readJSON(filepath.Join(verifDir, "checks", id+".json"), &spec); err != nil {
		fmt.Println("cannot read spec:", err)
		return 2
	}
	var known []KnownFinding
	readJSON(filepath.Join(verifDir, "known_findings.json"), &known)

	ov, err := harnessOverlay(&spec, false)
	if err != nil {
		fmt.Println("harness:", err)
		return 2
	}
	prog, err := loadProgram(ov)
	if err != nil {
		// the tree under /repo does not compile together with the harness: undecided, not a violation
		fmt.Println("UNDECIDED: cannot load /repo with the harness:", err)
		writeEvidence(&spec, tier, seed, nil, nil, nil, time.Since(t0).Seconds(), []string{"load error: " + err.Error()}, 0)
		return 2
	}
	fmt.Printf("loaded /repo/trzsz + %d harness files in %.1fs\n", len(ov), prog.loadS)

	var results []*RunResult
	var problems []string
	var confirmed []*confirmedViolation
	var rep *nativeReplayer
	defer func() {
		if rep != nil && !keep {
			rep.cleanup()
		}
	}()
	validated, validationTried, diverged := 0, 0, 0
	probed := map[string]int64{}
	if len(spec.Probes) > 0 {
		rep, err = newNativeReplayer(&spec)
		if err != nil {
			fmt.Println("UNDECIDED: cannot build the native probe:", err)
			return 2
		}
		for _, pe := range spec.Probes {
			out := rep.run(pe, nil, nil, 30*time.Second)
			if !out.done {
				fmt.Println("UNDECIDED: native probe failed:", pe, out.summary())
				return 2
			}
			for k, v := range out.probes {
				probed[k] = v
			}
		}
		fmt.Printf("native probes: %d values read from the real build\n", len(probed))
	}
	progPlain := prog
	for pass := 0; pass < 2; pass++ {
		if pass == 1 {
			any := false
			for _, rs := range spec.Runs {
				if rs.Scaled && inTier(rs, tier) && (only == "" || rs.Name == only || rs.Entry == only) {
					any = true
				}
			}
			if !any {
				break
			}
			spec.useScaled = true
			if rep != nil && !keep {
				rep.cleanup()
			}
			rep = nil
			ov2, err := harnessOverlay(&spec, false)
			if err == nil {
				prog, err = loadProgram(ov2)
			}
			if err != nil {
				fmt.Println("UNDECIDED: cannot load /repo with the scaled source:", err)
				problems = append(problems, "scaled source: "+firstLine(err.Error()))
				prog = progPlain
				break
			}
			fmt.Printf("loaded /repo/trzsz with %d scaled-source rewrite(s) in %.1fs\n", len(spec.Rewrites), prog.loadS)
		}
		for _, rs := range spec.Runs {
			if rs.Scaled != (pass == 1) {
				continue
			}
			if len(probed) > 0 {
				nb := map[string]int64{}
				for k, v := range probed {
					nb[k] = v
				}
				for k, v := range rs.Bounds {
					nb[k] = v
				}
				rs.Bounds = nb
			}
			if !inTier(rs, tier) || (only != "" && rs.Name != only && rs.Entry != only) {
				continue
			}
			opts := RunOpts{Entry: rs.Entry, Bounds: rs.Bounds, Solver: rs.Solver, Sched: rs.Sched, Unwind: rs.Unwind,
				MaxPaths: rs.MaxPaths, MaxSteps: rs.MaxSteps, QueryMs: rs.QueryMs, SampleEvery: 50, AllowPanic: rs.AllowPanic, MaxViol: 2000}
			opts.Preempt = -1
			if rs.Preempt != nil {
				opts.Preempt = *rs.Preempt
			}
			if rs.TimeoutS > 0 {
				opts.Deadline = time.Now().Add(time.Duration(rs.TimeoutS) * time.Second)
			}
			rr, err := explore(prog, opts)
			if err != nil {
				fmt.Println("explore:", err)
				return 2
			}
			if rr.Paths > 3000 {
				// keep the evidence small: thin the samples
				rr.Samples = thin(rr.Samples, 200, seed)
			}
			results = append(results, rr)
			fmt.Printf("run %-28s paths=%d steps=%d queries=%v solver=%.1fs wall=%.1fs status=%v viol=%d\n", rs.Name, rr.Paths, rr.Steps, rr.Queries, rr.SolverS, rr.WallS, rr.Status, len(rr.Viols))
			for m, n := range rr.Msgs {
				if strings.HasPrefix(m, "unsupported") || strings.HasPrefix(m, "unwind") {
					fmt.Printf("    %5d %s\n", n, m)
				}
			}
			// --- undecided outcomes
			if rr.TimedOut {
				problems = append(problems, fmt.Sprintf("%s: run timed out after %ds (bound not decided)", rs.Name, rs.TimeoutS))
			}
			if rr.Truncated && len(rr.Viols) == 0 {
				problems = append(problems, fmt.Sprintf("%s: path budget exhausted", rs.Name))
			}
			if rr.Inconcl > 0 || rr.Queries["unknown"] > 0 || rr.Queries["error"] > 0 {
				problems = append(problems, fmt.Sprintf("%s: %d inconclusive solver answers", rs.Name, rr.Inconcl+rr.Queries["unknown"]+rr.Queries["error"]))
			}
			if n := rr.Status["unsupported"]; n > 0 {
				problems = append(problems, fmt.Sprintf("%s: %d paths hit an unsupported construct", rs.Name, n))
			}
			// --- vacuity
			for _, lbl := range rs.Reach {
				if rr.Reached[lbl] == 0 && len(rr.Viols) == 0 {
					problems = append(problems, fmt.Sprintf("%s: vacuous: witness %q not reached", rs.Name, lbl))
				}
			}
			natT := 20 * time.Second
			if rs.NativeS > 0 {
				natT = time.Duration(rs.NativeS) * time.Second
			}
			// --- native replayer on demand
			needNative := rs.Replay == "native"
			if needNative && rep == nil {
				rep, err = newNativeReplayer(&spec)
				if err == nil {
					rep.memLimitKB = spec.MemLimitMB * 1024
				}
				if err != nil {
					fmt.Println("native replay build failed:", err)
					problems = append(problems, "native replay build failed: "+firstLine(err.Error()))
					rep = nil
					needNative = false
				}
			}
			// --- unwind paths: a hang candidate
			if n := rr.Status["unwind"]; n > 0 {
				hang := false
				if needNative && rep != nil {
					for _, u := range rr.Undecided {
						if u.Status != "unwind" {
							continue
						}
						out := rep.run(u.Entry, u.Bounds, u.Inputs, 10*time.Second, u.Env)
						if out.timedOut {
							v := Violation{kind: "hang", msg: "loop does not terminate: " + u.Msg, hvals: u.Inputs, entry: u.Entry, bounds: u.Bounds}
							rr.Viols = append(rr.Viols, v)
							hang = true
							break
						}
					}
				}
				if !hang {
					problems = append(problems, fmt.Sprintf("%s: %d paths exceeded the unwinding bound %d", rs.Name, n, opts.Unwind))
				}
			}
			// --- violations: group, confirm by concrete re-execution and natively
			groups := map[string][]Violation{}
			var order []string
			for _, v := range rr.Viols {
				k := violKey(v)
				if _, ok := groups[k]; !ok {
					order = append(order, k)
				}
				groups[k] = append(groups[k], v)
			}
			sort.Strings(order)
			for _, k := range order {
				vs := groups[k]
				var ok *confirmedViolation
				spurious := 0
				for i, v := range vs {
					if i >= 5 {
						break
					}
					cv := &confirmedViolation{v: v, run: rs.Name, count: len(vs), native: "not-run", scaled: rs.Scaled}
					if v.kind != "hang" {
						pr, err := replayInterp(prog, opts, v.decisions, v.model)
						if err != nil {
							continue
						}
						found := false
						for _, pv := range pr.viols {
							if pv.kind == v.kind && pv.msg == v.msg && pv.detail == v.detail {
								found = true
							}
						}
						if !found {
							spurious++
							fmt.Printf("UNCONFIRMED (concrete re-execution of the model does not violate): %s %s %s [got status=%s %s viols=%d]\n", v.entry, v.kind, v.msg, pr.status, pr.msg, len(pr.viols))
							continue
						}
					}
					if needNative && rep != nil && v.kind != "hang" {
						out := rep.run(v.entry, v.bounds, v.hvals, natT, v.env)
						for retry := 0; retry < 2 && !out.matches(v); retry++ {
							out = rep.run(v.entry, v.bounds, v.hvals, natT, v.env)
						}
						if !out.matches(v) {
							spurious++
							fmt.Printf("UNCONFIRMED (native replay against the real build does not reproduce): %s %s %q native=%s\n", v.entry, v.kind, v.msg, out.summary())
							continue
						}
						cv.native = "reproduced"
					}
					ok = cv
					break
				}
				if ok == nil {
					problems = append(problems, fmt.Sprintf("%s: %d counterexample(s) for %q did not reproduce (engine or stub imprecision)", rs.Name, spurious, k))
					continue
				}
				confirmed = append(confirmed, ok)
			}
			// --- translator validation: replay sampled paths natively, outcome must agree with the prediction
			if needNative && rep != nil && len(rr.Samples) > 0 {
				nval := 5
				if tier == "thorough" {
					nval = 40
				}
				for _, s := range thin(rr.Samples, nval, seed+1) {
					if s.Status != "ok" && s.Status != "blocked-expected" {
						continue
					}
					validationTried++
					out := rep.run(s.Entry, s.Bounds, s.Inputs, natT, s.Env)
					for retry := 0; retry < 2 && !out.agrees(s); retry++ {
						// the native side detects quiescence by wall clock; under load it can misjudge: ask again
						out = rep.run(s.Entry, s.Bounds, s.Inputs, natT, s.Env)
					}
					if rs.NativeRacy && out.exhausted {
						validationTried--
						diverged++
						continue
					}
					if out.agrees(s) {
						validated++
					} else {
						problems = append(problems, fmt.Sprintf("%s: translator validation: native run disagrees with the symbolic path (predicted %s %v, native %s) inputs=%s env=%v", rs.Name, s.Status, s.Reached, out.summary(), fmtInputs(s.Inputs), s.Env))
					}
				}
			}
		}
	}
	if len(results) == 0 {
		fmt.Println("no runs selected")
		return 2
	}

	// --- classify against known findings, write replay files, print verdict lines
	os.MkdirAll(filepath.Join(verifDir, "replays"), 0o755)
	nviol := 0
	usedKnown := map[int]bool{}
	for _, cv := range confirmed {
		for i := range known {
			kf := &known[i]
			if kf.Status != "known" || kf.Property != spec.Property || (kf.Entry != "" && kf.Entry != cv.v.entry) || (kf.Kind != "" && kf.Kind != cv.v.kind) {
				continue
			}
			if kf.MsgRe != "" {
				if ok, _ := regexp.MatchString(kf.MsgRe, cv.v.msg+" | "+cv.v.detail); !ok {
					continue
				}
			}
			cv.known = kf
			usedKnown[i] = true
			break
		}
		cv.replay = writeReplay(&spec, cv)
		if cv.known != nil {
			continue
		}
		nviol++
		fmt.Printf("VIOLATION property=%s replay=%s\n", spec.Property, cv.replay)
		fmt.Printf("    run=%s entry=%s kind=%s what=%q detail=%q witnesses=%v paths=%d native=%s inputs=%s\n", cv.run, cv.v.entry, cv.v.kind, cv.v.msg, cv.v.detail, cv.v.reached, cv.count, cv.native, fmtInputs(cv.v.hvals))
	}
	for i := range known {
		if usedKnown[i] {
			fmt.Printf("KNOWN-FINDING: property=%s %s\n", spec.Property, known[i].What)
		}
	}
	if diverged > 0 {
		fmt.Printf("note: %d validation sample(s) of schedule-dependent harnesses took another harness branch natively (not comparable, not counted)\n", diverged)
	}
	for _, p := range problems {
		fmt.Println("UNDECIDED:", p)
	}
	writeEvidence(&spec, tier, seed, results, confirmed, prog, time.Since(t0).Seconds(), problems, validated)
	fmt.Printf("check %s tier=%s: %d runs, %d violations, %d known findings, %d undecided, validated %d/%d sampled paths natively, %.1fs\n",
		spec.Property, tier, len(results), nviol, len(usedKnown), len(problems), validated, validationTried, time.Since(t0).Seconds())
	if nviol > 0 {
		return 1
	}
	if len(problems) > 0 {
		return 2
	}
	return 0
}

func firstLine(s string) string {
	if i := strings.IndexByte(s, '\n'); i >= 0 {
		return s[:i]
	}
	return s
}

func thin(s []PathSample, n int, seed int64) []PathSample {
	if len(s) <= n {
		return s
	}
	out := make([]PathSample, 0, n)
	step := float64(len(s)) / float64(n)
	off := float64(uint64(seed)%97) / 97.0 * step
	for i := 0; i < n; i++ {
		k := int(off + float64(i)*step)
		if k >= len(s) {
			k = len(s) - 1
		}
		out = append(out, s[k])
	}
	return out
}

func fmtInputs(h []NondetVal) string {
	var sb strings.Builder
	for i, v := range h {
		if i > 0 {
			sb.WriteByte(' ')
		}
		if i >= 40 {
			sb.WriteString("...")
			break
		}
		if v.Bits == 64 {
			fmt.Fprintf(&sb, "%d", int64(v.Val))
		} else {
			fmt.Fprintf(&sb, "%d", v.Val)
		}
	}
	return sb.String()
}

// ReplayFile is the on-disk form of a counterexample; `vsym replay <file>` re-runs it natively.
type ReplayFile struct {
	Property  string            `json:"property"`
	Entry     string            `json:"entry"`
	Harness   []string          `json:"harness"`
	Bounds    map[string]int64  `json:"bounds"`
	Kind      string            `json:"kind"`
	Assertion string            `json:"assertion"`
	Detail    string            `json:"detail,omitempty"`
	Inputs    []NondetVal       `json:"inputs"`
	Env       []FSPre           `json:"fs_pre,omitempty"`
	Model     map[string]uint64 `json:"model"`
	Decisions [][2]uint64       `json:"decisions"`
	Native    string            `json:"native"`
	Run       string            `json:"run"`
	Rewrites  []Rewrite         `json:"scaled_source,omitempty"`
}

func writeReplay(spec *Spec, cv *confirmedViolation) string {
	rf := ReplayFile{Property: spec.Property, Entry: cv.v.entry, Harness: spec.Harness, Bounds: cv.v.bounds, Kind: cv.v.kind,
		Assertion: cv.v.msg, Detail: cv.v.detail, Inputs: cv.v.hvals, Env: cv.v.env, Model: cv.v.model, Native: cv.native, Run: cv.run}
	if cv.scaled {
		rf.Rewrites = spec.Rewrites
	}
	for _, d := range cv.v.decisions {
		b := uint64(0)
		if d.b {
			b = 1
		}
		rf.Decisions = append(rf.Decisions, [2]uint64{b, d.m})
	}
	h := uint32(2166136261)
	for _, c := range []byte(violKey(cv.v)) {
		h = (h ^ uint32(c)) * 16777619
	}
	path := filepath.Join(verifDir, "replays", fmt.Sprintf("%s-%s-%08x.json", spec.Property, cv.v.entry, h))
	b, _ := json.MarshalIndent(rf, "", " ")
	os.WriteFile(path, b, 0o644)
	return path
}

func writeEvidence(spec *Spec, tier string, seed int64, results []*RunResult, confirmed []*confirmedViolation, prog *Program, wall float64, problems []string, validated int) {
	states, trans := 0, 0
	queries := map[string]int{}
	solverS := 0.0
	funcs := map[string]bool{}
	stubs := map[string]bool{}
	var samples []interface{}
	var runs []interface{}
	for _, r := range results {
		states += r.Paths
		trans += r.Steps
		for k, v := range r.Queries {
			queries[k] += v
		}
		solverS += r.SolverS
		for f := range r.Funcs {
			if !strings.Contains(f, ".zz") && !strings.HasSuffix(f, ".init") {
				funcs[f] = true
			}
		}
		for s := range r.Stubs {
			if !strings.HasSuffix(s, ".init") && !strings.Contains(s, ".verif") {
				stubs[s] = true
			}
		}
		for _, s := range thin(r.Samples, 3, seed) {
			samples = append(samples, map[string]interface{}{"entry": s.Entry, "bounds": s.Bounds, "path_status": s.Status, "witnesses": s.Reached,
				"branch_decisions": s.NDec, "inputs_in_call_order": fmtInputs(s.Inputs)})
		}
		reached := []string{}
		for k := range r.Reached {
			reached = append(reached, fmt.Sprintf("%s:%d", k, r.Reached[k]))
		}
		sort.Strings(reached)
		runs = append(runs, map[string]interface{}{
			"entry": r.Opts.Entry, "bounds": r.Opts.Bounds, "solver": orDefault(r.Opts.Solver, "z3"), "schedules_explored": r.Opts.Sched,
			"unwind": r.Opts.Unwind, "paths": r.Paths, "ssa_instructions": r.Steps, "branch_decisions": r.Decisions,
			"path_status": r.Status, "queries": r.Queries, "solver_s": round1(r.SolverS), "wall_s": round1(r.WallS),
			"witnesses_reached": reached, "violating_paths": len(r.Viols), "timed_out": r.TimedOut,
		})
	}
	if len(samples) == 0 {
		samples = append(samples, map[string]string{"note": "no path completed"})
	}
	var fl, sl []string
	for f := range funcs {
		fl = append(fl, f)
	}
	for s := range stubs {
		sl = append(sl, s)
	}
	sort.Strings(fl)
	sort.Strings(sl)
	var findings []interface{}
	nviol := 0
	for _, cv := range confirmed {
		st := "VIOLATION"
		if cv.known != nil {
			st = "KNOWN-FINDING"
		} else {
			nviol++
		}
		findings = append(findings, map[string]interface{}{"status": st, "entry": cv.v.entry, "kind": cv.v.kind, "what": cv.v.msg, "detail": cv.v.detail, "violating_paths": cv.count, "native_replay": cv.native, "replay": cv.replay})
	}
	if states == 0 {
		states = 1 // schema minimum; undecided runs are reported in 'undecided'
	}
	if trans == 0 {
		trans = 1
	}
	ev := map[string]interface{}{
		"property_id": spec.Property, "tier": tier, "seed": seed, "level": "model_checking",
		"coverage": map[string]interface{}{
			"states": states, "transitions": trans, "traces_validated_against_impl": validated, "samples": samples,
			"explanation":       "states = symbolic paths explored (each an SMT-characterised equivalence class of concrete runs of the real code); transitions = go/ssa instructions interpreted; every branch and assertion on every path was decided by the solver; " + spec.Explanation,
			"exhaustive":        len(problems) == 0,
			"functions_encoded": fl, "stubs": sl, "runs": runs, "queries": queries, "solver_s": round1(solverS),
			"outside_bounds": spec.Outside, "undecided": problems, "findings": findings,
			"encoding": "regenerated from /repo's working tree on this run (go/packages overlay + go/ssa)",
		},
		"assumptions": append([]string{}, spec.Assumptions...),
		"wall_s":      round1(wall), "violations": nviol,
	}
	b, _ := json.MarshalIndent(ev, "", " ")
	if os.Getenv("VERIF_REPO") != "" {
		// a trial against a scratch tree (a seeded change): the evidence of the real tree is left alone
		dir := filepath.Join(verifDir, "replays")
		os.MkdirAll(dir, 0o755)
		os.WriteFile(filepath.Join(dir, "trial-evidence-"+spec.Property+".json"), b, 0o644)
		return
	}
	os.MkdirAll(filepath.Join(verifDir, "evidence"), 0o755)
	os.WriteFile(filepath.Join(verifDir, "evidence", spec.Property+".json"), b, 0o644)
}

func orDefault(s, d string) string {
	if s == "" {
		return d
	}
	return s
}

func round1(f float64) float64 { return float64(int(f*10+0.5)) / 10 }
