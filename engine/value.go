package main

import (
	"fmt"
	"go/types"

	"golang.org/x/tools/go/ssa"
)

type Value interface{}

// Loc is a storage location: *Cell, *StructObj or *ArrayObj.
type Loc interface{}

type Cell struct{ v Value }

type StructObj struct {
	fields []Loc
	typ    *types.Struct
}

type ArrayObj struct {
	n     int
	elemT types.Type
	vals  []Value // non-aggregate elements (nil = zero)
	subs  []Loc   // aggregate elements
	id    int
	log   []logEnt // symbolic-index writes, oldest first
}

type logEnt struct {
	idx *Term
	v   Value
}

// Ptr is a pointer value. Zero Ptr is nil.
type Ptr struct {
	loc Loc       // direct location
	arr *ArrayObj // element pointer (non-aggregate elem)
	idx *Term
	fn  *ssa.Function // pointer-to-function (not used)
}

func (p Ptr) isNil() bool { return p.loc == nil && p.arr == nil }

type GAlt struct {
	c *Term
	p Ptr
}

// GPtr is a guarded pointer: exactly one alternative holds.
type GPtr struct{ alts []GAlt }

type Slice struct {
	arr           *ArrayObj
	off, len, cap *Term
}

type Str struct{ b []*Term }

type Iface struct {
	t types.Type
	v Value
}

type Closure struct {
	fn   *ssa.Function
	bind []Value
}

type Chan struct {
	q      []Value
	cap    int
	closed bool
	elemT  types.Type
	recvWaiting int
}

type MapEntry struct {
	k, v Value
}
type MapObj struct {
	ents  []MapEntry
	keyT  types.Type
	elemT types.Type
}

type Tuple []Value

func isAggregate(t types.Type) bool {
	switch t.Underlying().(type) {
	case *types.Struct, *types.Array:
		return true
	}
	return false
}

func sortOf(t types.Type) Sort {
	switch u := t.Underlying().(type) {
	case *types.Basic:
		switch u.Kind() {
		case types.Bool, types.UntypedBool:
			return BoolSort
		case types.Int8, types.Uint8:
			return 8
		case types.Int16, types.Uint16:
			return 16
		case types.Int32, types.Uint32, types.UntypedRune:
			return 32
		case types.Int, types.Int64, types.Uint, types.Uint64, types.Uintptr, types.UntypedInt:
			return 64
		}
	}
	return -1
}

func isSigned(t types.Type) bool {
	if b, ok := t.Underlying().(*types.Basic); ok {
		return b.Info()&types.IsUnsigned == 0
	}
	return true
}

func (ex *Exec) zero(t types.Type) Value {
	switch u := t.Underlying().(type) {
	case *types.Basic:
		if u.Info()&types.IsString != 0 {
			return Str{}
		}
		if u.Kind() == types.UnsafePointer {
			return Ptr{}
		}
		s := sortOf(t)
		if s < 0 {
			panic(unsupported("zero of basic " + t.String()))
		}
		if s == BoolSort {
			return ex.ts.F
		}
		return ex.ts.Const(s, 0)
	case *types.Pointer:
		return Ptr{}
	case *types.Slice:
		z := ex.ts.Const(64, 0)
		return Slice{nil, z, z, z}
	case *types.Interface:
		return Iface{}
	case *types.Signature:
		return Closure{}
	case *types.Chan:
		return (*Chan)(nil)
	case *types.Map:
		return (*MapObj)(nil)
	case *types.Struct, *types.Array:
		return ex.newLoc(t)
	case *types.Tuple:
		tu := make(Tuple, u.Len())
		for i := range tu {
			tu[i] = ex.zero(u.At(i).Type())
		}
		return tu
	}
	panic(unsupported("zero of " + t.String()))
}

func (ex *Exec) newLoc(t types.Type) Loc {
	switch u := t.Underlying().(type) {
	case *types.Struct:
		so := &StructObj{typ: u, fields: make([]Loc, u.NumFields())}
		for i := range so.fields {
			so.fields[i] = ex.newLoc(u.Field(i).Type())
		}
		return so
	case *types.Array:
		return ex.newArray(u.Elem(), int(u.Len()))
	}
	return &Cell{ex.zero(t)}
}

func (ex *Exec) newArray(elemT types.Type, n int) *ArrayObj {
	ex.narr++
	a := &ArrayObj{n: n, elemT: elemT, id: ex.narr}
	if isAggregate(elemT) {
		a.subs = make([]Loc, n)
		for i := range a.subs {
			a.subs[i] = ex.newLoc(elemT)
		}
	} else {
		a.vals = make([]Value, n)
	}
	return a
}

// clone deep-copies an aggregate value.
func (ex *Exec) cloneLoc(l Loc) Loc {
	switch x := l.(type) {
	case *Cell:
		return &Cell{x.v}
	case *StructObj:
		n := &StructObj{typ: x.typ, fields: make([]Loc, len(x.fields))}
		for i, f := range x.fields {
			n.fields[i] = ex.cloneLoc(f)
		}
		return n
	case *ArrayObj:
		ex.narr++
		n := &ArrayObj{n: x.n, elemT: x.elemT, id: ex.narr}
		if x.subs != nil {
			n.subs = make([]Loc, len(x.subs))
			for i, s := range x.subs {
				n.subs[i] = ex.cloneLoc(s)
			}
		} else {
			n.vals = make([]Value, len(x.vals))
			copy(n.vals, x.vals)
			n.log = append([]logEnt(nil), x.log...)
		}
		return n
	}
	panic(fmt.Sprintf("cloneLoc %T", l))
}

func (ex *Exec) copyInto(dst, src Loc) {
	switch d := dst.(type) {
	case *Cell:
		d.v = src.(*Cell).v
	case *StructObj:
		s := src.(*StructObj)
		for i := range d.fields {
			ex.copyInto(d.fields[i], s.fields[i])
		}
	case *ArrayObj:
		s := src.(*ArrayObj)
		if d.subs != nil {
			for i := range d.subs {
				ex.copyInto(d.subs[i], s.subs[i])
			}
		} else {
			copy(d.vals, s.vals)
		}
	}
}

func (ex *Exec) arrGet(a *ArrayObj, i int) Value {
	if a.subs != nil {
		return a.subs[i]
	}
	v := a.vals[i]
	if v == nil {
		v = ex.zero(a.elemT)
		a.vals[i] = v
	}
	return v
}

// loadElem reads a[idx] for possibly symbolic idx (assumed in range).
func (ex *Exec) loadElem(a *ArrayObj, idx *Term) Value {
	base := ex.loadBase(a, idx)
	for _, le := range a.log {
		c := ex.ts.Eq(idx, le.idx)
		if c.IsFalse() {
			continue
		}
		base = ex.mergeVal(c, le.v, base)
	}
	return base
}

// mergeVal returns ite(c, a, b) for scalar or pointer values.
func (ex *Exec) mergeVal(c *Term, a, b Value) Value {
	if c.IsTrue() {
		return a
	}
	if c.IsFalse() {
		return b
	}
	switch x := a.(type) {
	case *Term:
		return ex.ts.Ite(c, x, b.(*Term))
	case Ptr, GPtr:
		var alts []GAlt
		add := func(g *Term, v Value) {
			switch p := v.(type) {
			case Ptr:
				alts = addAlt(ex, alts, g, p)
			case GPtr:
				for _, al := range p.alts {
					alts = addAlt(ex, alts, ex.ts.And(g, al.c), al.p)
				}
			}
		}
		add(c, a)
		add(ex.ts.Not(c), b)
		if len(alts) == 1 {
			return alts[0].p
		}
		return GPtr{alts}
	}
	panic(unsupported(fmt.Sprintf("mergeVal %T", a)))
}

func (ex *Exec) loadBase(a *ArrayObj, idx *Term) Value {
	if idx.IsConst() {
		i := int(idx.val)
		if i < 0 || i >= a.n {
			panic(goPanic{"index out of range (internal) "})
		}
		return ex.arrGet(a, i)
	}
	if a.n > 4096 {
		panic(unsupported("symbolic index into large array"))
	}
	if a.subs != nil {
		panic(unsupported("symbolic index into aggregate array"))
	}
	// group cells by identical value; most frequent group is the default
	type grp struct {
		v    Value
		idxs []int
	}
	var groups []*grp
	for i := 0; i < a.n; i++ {
		v := a.vals[i]
		found := false
		for _, g := range groups {
			if g.v == v {
				g.idxs = append(g.idxs, i)
				found = true
				break
			}
		}
		if !found {
			groups = append(groups, &grp{v, []int{i}})
		}
		if len(groups) > 64 {
			break
		}
	}
	if len(groups) > 64 {
		// fall back: plain ite chain (scalars only)
		res, ok := ex.arrGet(a, a.n-1).(*Term)
		if !ok {
			panic(unsupported("symbolic index over many distinct non-scalar cells"))
		}
		for i := a.n - 2; i >= 0; i-- {
			v := ex.arrGet(a, i).(*Term)
			if v == res {
				continue
			}
			res = ex.ts.Ite(ex.ts.Eq(idx, ex.ts.Const(64, uint64(i))), v, res)
		}
		return res
	}
	def := groups[0]
	for _, g := range groups {
		if len(g.idxs) > len(def.idxs) {
			def = g
		}
	}
	val := func(g *grp) Value {
		if g.v == nil {
			return ex.zero(a.elemT)
		}
		return g.v
	}
	res := val(def)
	for _, g := range groups {
		if g == def {
			continue
		}
		c := ex.ts.F
		for _, i := range g.idxs {
			c = ex.ts.Or(c, ex.ts.Eq(idx, ex.ts.Const(64, uint64(i))))
		}
		res = ex.mergeVal(c, val(g), res)
	}
	return res
}

func addAlt(ex *Exec, alts []GAlt, c *Term, p Ptr) []GAlt {
	if c.IsFalse() {
		return alts
	}
	for i := range alts {
		if alts[i].p == p {
			alts[i].c = ex.ts.Or(alts[i].c, c)
			return alts
		}
	}
	return append(alts, GAlt{c, p})
}

func (ex *Exec) storeElem(a *ArrayObj, idx *Term, v Value) {
	if idx.IsConst() && len(a.log) == 0 {
		i := int(idx.val)
		if a.subs != nil {
			ex.copyInto(a.subs[i], v.(Loc))
		} else {
			a.vals[i] = v
		}
		return
	}
	if a.subs != nil {
		panic(unsupported("symbolic index store into aggregate array"))
	}
	a.log = append(a.log, logEnt{idx, v})
}

func (ex *Exec) load(pv Value, t types.Type) Value {
	switch p := pv.(type) {
	case Ptr:
		if p.isNil() {
			panic(goPanic{"nil pointer dereference"})
		}
		if p.arr != nil {
			return ex.loadElem(p.arr, p.idx)
		}
		switch l := p.loc.(type) {
		case *Cell:
			return l.v
		default:
			return ex.cloneLoc(l)
		}
	case GPtr:
		// ite over alternatives (scalars only) ; nil alt -> must be infeasible
		var res Value
		for i := len(p.alts) - 1; i >= 0; i-- {
			al := p.alts[i]
			if al.p.isNil() {
				if ex.feasible(al.c) {
					panic(goPanic{"nil pointer dereference (guarded)"})
				}
				continue
			}
			v := ex.load(al.p, t)
			if res == nil {
				res = v
				continue
			}
			tv, ok1 := v.(*Term)
			tr, ok2 := res.(*Term)
			if !ok1 || !ok2 {
				panic(unsupported("guarded load of non-scalar"))
			}
			res = ex.ts.Ite(al.c, tv, tr)
		}
		if res == nil {
			panic(goPanic{"nil pointer dereference"})
		}
		return res
	}
	panic(unsupported(fmt.Sprintf("load through %T", pv)))
}

func (ex *Exec) store(pv Value, v Value) {
	switch p := pv.(type) {
	case Ptr:
		if p.isNil() {
			panic(goPanic{"nil pointer dereference (store)"})
		}
		if p.arr != nil {
			ex.storeElem(p.arr, p.idx, v)
			return
		}
		switch l := p.loc.(type) {
		case *Cell:
			l.v = v
		default:
			ex.copyInto(l, v.(Loc))
		}
		return
	}
	panic(unsupported(fmt.Sprintf("store through %T", pv)))
}

// sameValue is identity on values, safe for the non-comparable representations.
func sameValue(a, b Value) bool {
	switch x := a.(type) {
	case Str:
		y, ok := b.(Str)
		if !ok || len(x.b) != len(y.b) {
			return false
		}
		for i := range x.b {
			if x.b[i] != y.b[i] {
				return false
			}
		}
		return true
	case Slice:
		y, ok := b.(Slice)
		return ok && x.arr == y.arr && x.off == y.off && x.len == y.len && x.cap == y.cap
	case Rope, Tuple, GPtr, Closure, FVal:
		return false
	}
	switch b.(type) {
	case Str, Slice, Rope, Tuple, GPtr, Closure, FVal:
		return false
	}
	return a == b
}
