package main

import (
	"go/types"

	"golang.org/x/tools/go/ssa"
)

// Time model. A time.Time is represented as the real struct {wall, ext, loc} with wall = 0, loc = nil and ext = the
// instant in nanoseconds (a term). The clock is frozen by default (every Now() returns the current instant, which only
// verifAdvanceTime moves, by 10 s per call); verifSymbolicClock() makes every Now() a fresh non-decreasing value.
// A timer is armed at creation and fires when the harness advances time past it ("an armed timer eventually fires").

type TimerObj struct {
	stopped bool
	fired   bool
	armedAt int
	deadline int64 // absolute instant (ns) at which it expires, -1 if its duration is not a constant
	ch      *Chan // nil for AfterFunc timers
	obj     *StructObj
}

type cmdState struct {
	startErr, started, exited, killed bool
	outClosed                         bool // the helper closed its stdout (it may go on running)
	code                              int
	out                               [][]*Term // output the helper still has to produce
}

type WriterStub struct{ name string }

type clockState struct {
	now      *Term
	ns       int64 // the same instant, concretely (frozen clock only)
	symbolic bool
}

func (ex *Exec) clk() *clockState {
	if s, ok := ex.side["clock"]; ok {
		return s.(*clockState)
	}
	s := &clockState{now: ex.ts.Const(64, 1_000_000_000_000_000), ns: 1_000_000_000_000_000}
	ex.side["clock"] = s
	return s
}

func (ex *Exec) timeType() types.Type {
	for _, p := range ex.prog.AllPackages() {
		if p.Pkg.Path() == "time" {
			return p.Members["Time"].(*ssa.Type).Type()
		}
	}
	panic("no time.Time")
}

func (ex *Exec) timerType() types.Type {
	for _, p := range ex.prog.AllPackages() {
		if p.Pkg.Path() == "time" {
			return p.Members["Timer"].(*ssa.Type).Type()
		}
	}
	panic("no time.Timer")
}

func (ex *Exec) mkTime(ns *Term) *StructObj {
	so := ex.newLoc(ex.timeType()).(*StructObj)
	so.fields[1].(*Cell).v = ns
	return so
}

func (ex *Exec) timeNs(v Value) *Term {
	switch x := v.(type) {
	case *StructObj:
		return x.fields[1].(*Cell).v.(*Term)
	case Ptr:
		return ex.timeNs(x.loc)
	}
	panic(unsupported("time value"))
}

func (ex *Exec) nowNs() *Term {
	c := ex.clk()
	if c.symbolic {
		n := ex.nondet(64)
		ex.assume(ex.ts.Bin(OpSLe, c.now, n))
		ex.assume(ex.ts.Bin(OpSLe, n, ex.ts.Const(64, 4_000_000_000_000_000_000)))
		c.now = n
	}
	return c.now
}

// deadlineOf: the absolute expiry instant of a timer of duration d armed now (-1 when d is not a constant)
func (ex *Exec) deadlineOf(d Value) int64 {
	if t, ok := d.(*Term); ok && t.IsConst() && !ex.clk().symbolic {
		return ex.clk().ns + int64(t.val)
	}
	return -1
}

func (ex *Exec) newTimer(withChan bool, dur Value) *TimerObj {
	t := &TimerObj{armedAt: ex.clock, deadline: ex.deadlineOf(dur)}
	if withChan {
		t.ch = &Chan{cap: 1, elemT: ex.timeType()}
	}
	ex.timers = append(ex.timers, t)
	return t
}

// due: the timer has expired — it was armed before the current coarse tick (verifAdvanceTime: "beyond every time-out"),
// or its known deadline has been reached by fine-grained advances (verifAdvanceMs)
func (ex *Exec) due(t *TimerObj) bool {
	return ex.clock > t.armedAt || (t.deadline >= 0 && ex.clk().ns >= t.deadline)
}

// fireTimers delivers every armed channel timer that is due.
func (ex *Exec) fireTimers() {
	for _, t := range ex.timers {
		if t.ch != nil && !t.stopped && !t.fired && ex.due(t) {
			t.fired = true
			if len(t.ch.q) < t.ch.cap {
				t.ch.q = append(t.ch.q, ex.mkTime(ex.clk().now))
			}
		}
	}
}

func (ex *Exec) timerOf(v Value) *TimerObj {
	switch x := v.(type) {
	case *TimerObj:
		return x
	case Ptr:
		if x.isNil() {
			return nil
		}
		if t, ok := ex.side[x.loc].(*TimerObj); ok {
			return t
		}
	}
	return nil
}

func (ex *Exec) timerIntrinsic(fn *ssa.Function, name string, args []Value) (Value, bool) {
	switch name {
	case "time.Now":
		return ex.mkTime(ex.nowNs()), true
	case "time.Since":
		return ex.ts.Bin(OpSub, ex.nowNs(), ex.timeNs(args[0])), true
	case "time.Until":
		return ex.ts.Bin(OpSub, ex.timeNs(args[0]), ex.nowNs()), true
	case "(time.Time).Sub":
		return ex.ts.Bin(OpSub, ex.timeNs(args[0]), ex.timeNs(args[1])), true
	case "(time.Time).Before":
		return ex.ts.Bin(OpSLt, ex.timeNs(args[0]), ex.timeNs(args[1])), true
	case "(time.Time).After":
		return ex.ts.Bin(OpSLt, ex.timeNs(args[1]), ex.timeNs(args[0])), true
	case "(time.Time).Equal":
		return ex.ts.Eq(ex.timeNs(args[0]), ex.timeNs(args[1])), true
	case "(time.Time).IsZero":
		return ex.ts.Eq(ex.timeNs(args[0]), ex.ts.Const(64, 0)), true
	case "(time.Time).UnixMilli":
		return ex.ts.Bin(OpSDiv, ex.timeNs(args[0]), ex.ts.Const(64, 1_000_000)), true
	case "(time.Time).UnixNano":
		return ex.timeNs(args[0]), true
	case "(time.Time).Unix":
		return ex.ts.Bin(OpSDiv, ex.timeNs(args[0]), ex.ts.Const(64, 1_000_000_000)), true
	case "(time.Time).Add":
		return ex.mkTime(ex.ts.Bin(OpAdd, ex.timeNs(args[0]), args[1].(*Term))), true
	case "time.UnixMilli":
		return ex.mkTime(ex.ts.Bin(OpMul, args[0].(*Term), ex.ts.Const(64, 1_000_000))), true
	case "time.NewTimer":
		t := ex.newTimer(true, args[0])
		so := ex.newLoc(ex.timerType()).(*StructObj)
		so.fields[0].(*Cell).v = t.ch
		t.obj = so
		ex.side[Loc(so)] = t
		return Ptr{loc: so}, true
	case "time.After":
		return ex.newTimer(true, args[0]).ch, true
	case "time.AfterFunc":
		t := ex.newTimer(false, args[0])
		f := args[1]
		ex.spawn(func() {
			ex.wait(func() bool { return t.stopped || ex.due(t) }, "timer")
			if !t.stopped {
				t.fired = true
				ex.callAny(f, nil)
			}
		})
		return t, true
	case "(*time.Timer).Stop":
		t := ex.timerOf(args[0])
		if t == nil {
			panic(goPanic{"nil pointer dereference (timer)"})
		}
		was := !t.stopped && !t.fired
		t.stopped = true
		return ex.ts.Bool(was), true
	case "(*time.Timer).Reset":
		t := ex.timerOf(args[0])
		if t == nil {
			panic(goPanic{"nil pointer dereference (timer)"})
		}
		was := !t.stopped && !t.fired
		t.stopped, t.fired, t.armedAt = false, false, ex.clock
		t.deadline = ex.deadlineOf(args[1])
		return ex.ts.Bool(was), true
	case "os/exec.Command":
		c := &cmdState{}
		ex.side["cmd"] = c
		return c, true
	case "(*os/exec.Cmd).StdinPipe", "(*os/exec.Cmd).StdoutPipe":
		return Tuple{Iface{t: types.Typ[types.Int], v: &WriterStub{name}}, Iface{}}, true
	case "(*os/exec.Cmd).Start":
		c := args[0].(*cmdState)
		c.startErr = ex.decide(ex.nondet(BoolSort))
		if c.startErr {
			return ex.errValue("exec: not found"), true
		}
		c.started = true
		return Iface{}, true
	case "(*os/exec.Cmd).Wait":
		c := args[0].(*cmdState)
		ex.wait(func() bool { return c.exited }, "helper process running")
		return Iface{}, true
	case "(*os.Process).Kill":
		if c, ok := ex.side["cmd"].(*cmdState); ok && !c.exited {
			c.exited = true
			c.code = -1
			c.killed = true
		}
		return Iface{}, true
	case "(*os.ProcessState).ExitCode":
		if c, ok := ex.side["cmd"].(*cmdState); ok {
			return ex.ts.Const(64, uint64(int64(c.code))), true
		}
		return ex.ts.Const(64, 0), true
	}
	if fn.Pkg == ex.pkg {
		switch fn.Name() {
		case "verifAdvanceTime":
			ex.clock++
			c := ex.clk()
			if !c.symbolic {
				c.now = ex.ts.Bin(OpAdd, c.now, ex.ts.Const(64, 10_000_000_000))
				c.ns += 10_000_000_000
			}
			ex.fireTimers()
			return nil, true
		case "verifAdvanceMs": // a short stretch of time: only timers whose (constant) duration has run out expire
			c := ex.clk()
			if c.symbolic {
				panic(unsupported("verifAdvanceMs with a symbolic clock"))
			}
			d := int64(ex.concretize(args[0].(*Term))) * 1_000_000
			c.ns += d
			c.now = ex.ts.Const(64, uint64(c.ns))
			ex.fireTimers()
			return nil, true
		case "verifHelperExit": // the helper process ends with the given exit code
			if c, ok := ex.side["cmd"].(*cmdState); ok && c.started && !c.exited {
				c.exited = true
				c.code = int(int64(ex.concretize(args[0].(*Term))))
			}
			return nil, true
		case "verifHelperOutput": // the helper writes these bytes to its stdout
			if c, ok := ex.side["cmd"].(*cmdState); ok {
				c.out = append(c.out, ex.bytesOf(args[0]))
			}
			return nil, true
		case "verifHelperCloseOutput": // the helper closes its stdout but does not exit
			if c, ok := ex.side["cmd"].(*cmdState); ok && c.started {
				c.outClosed = true
			}
			return nil, true
		case "verifHelperState": // 0 not started, 1 running, 2 exited, 3 killed
			st := uint64(0)
			if c, ok := ex.side["cmd"].(*cmdState); ok {
				switch {
				case c.killed:
					st = 3
				case c.exited:
					st = 2
				case c.started:
					st = 1
				}
			}
			return ex.ts.Const(64, st), true
		case "verifSymbolicClock":
			ex.clk().symbolic = true
			return nil, true
		}
	}
	return nil, false
}
