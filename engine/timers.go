package main

import (
	"go/types"

	"golang.org/x/tools/go/ssa"
)

type TimerObj struct {
	stopped bool
	fired   bool
	armedAt int
}

type cmdState struct{ startErr bool }

type WriterStub struct{ name string }

func (ex *Exec) timerIntrinsic(fn *ssa.Function, name string, args []Value) (Value, bool) {
	switch name {
	case "time.AfterFunc":
		t := &TimerObj{armedAt: ex.clock}
		f := args[1]
		ex.spawn(func() {
			ex.wait(func() bool { return t.stopped || ex.clock > t.armedAt }, "timer")
			if !t.stopped {
				t.fired = true
				ex.callAny(f, nil)
			}
		})
		ex.timers = append(ex.timers, t)
		return t, true
	case "(*time.Timer).Stop":
		t, _ := args[0].(*TimerObj)
		if t == nil {
			panic(goPanic{"nil timer"})
		}
		was := !t.stopped && !t.fired
		t.stopped = true
		return ex.ts.Bool(was), true
	case "os/exec.Command":
		c := &cmdState{}
		return c, true
	case "(*os/exec.Cmd).StdinPipe", "(*os/exec.Cmd).StdoutPipe":
		return Tuple{Iface{t: types.Typ[types.Int], v: &WriterStub{name}}, Iface{}}, true
	case "(*os/exec.Cmd).Start":
		c := args[0].(*cmdState)
		c.startErr = ex.decide(ex.nondet(BoolSort))
		if c.startErr {
			return ex.errValue("exec: not found"), true
		}
		return Iface{}, true
	}
	if fn.Pkg == ex.pkg && fn.Name() == "verifAdvanceTime" {
		ex.clock++
		return nil, true
	}
	return nil, false
}
