package main

import (
	"fmt"
	"os"
	"sort"
	"strings"
	"sync"
	"time"

	"golang.org/x/tools/go/packages"
	"golang.org/x/tools/go/ssa"
	"golang.org/x/tools/go/ssa/ssautil"
)

// PathResult is what one symbolic path produced.
type PathResult struct {
	status    string
	msg       string
	decisions []Dec
	steps     int
	viols     []Violation
	pending   [][]Dec
	reached   map[string]bool
	funcs     map[string]int
	stubs     map[string]int
	inconcl   int
	model     map[string]uint64 // a model of the final path condition (sampled paths only)
	hvals     []NondetVal       // harness-level nondets of that model, in call order
	env       []FSPre
	notes     []string
}

// NondetVal is one harness-level nondeterministic input with the value a model gave it.
type NondetVal struct {
	Name string `json:"name"`
	Bits int    `json:"bits"` // 0 = bool
	Val  uint64 `json:"val"`
}

// RunOpts are the knobs of one exploration.
type RunOpts struct {
	Entry       string
	Bounds      map[string]int64
	Solver      string // z3 | z3-new | cvc5
	Sched       bool
	Unwind      int
	MaxSteps    int
	MaxPaths    int
	Workers     int
	QueryMs     int
	Deadline    time.Time
	SampleEvery int // keep a model for every k-th completed path (0 = none)
	MaxViol     int // stop collecting after this many violations (0 = unlimited)
	AllowPanic  bool
	Preempt     int // schedule exploration: max pre-emptions per path (context bound); <0 = unbounded
}

// RunResult aggregates an exploration.
type RunResult struct {
	Opts       RunOpts
	Paths      int
	Steps      int
	Decisions  int
	Status     map[string]int
	Msgs       map[string]int
	Reached    map[string]int
	Funcs      map[string]int
	Stubs      map[string]int
	Viols      []Violation
	Inconcl    int
	Queries    map[string]int
	SolverS    float64
	WallS      float64
	TimedOut   bool
	Truncated  bool
	Samples    []PathSample
	Undecided  []PathSample // paths that ended unwind / unsupported (with a model when available)
	Notes      map[string]int
}

// PathSample is a path kept for evidence and for translator validation.
type PathSample struct {
	Entry   string          `json:"entry"`
	Status  string          `json:"status"`
	Msg     string          `json:"msg,omitempty"`
	Reached []string        `json:"reached"`
	Inputs  []NondetVal     `json:"inputs"`
	Env     []FSPre         `json:"env,omitempty"`
	Bounds  map[string]int64 `json:"bounds,omitempty"`
	NDec    int             `json:"decisions"`
}

type Worker struct {
	prog *ssa.Program
	pkg  *ssa.Package
	sol  *Solver
	opts *RunOpts
}

// Program is a loaded, SSA-built view of /repo's current tree plus harness overlay files.
type Program struct {
	prog  *ssa.Program
	pkg   *ssa.Package
	loadS float64
	files []string
}

// repoDir is the tree under test: /repo (its current working tree). $VERIF_REPO points the tools at a scratch
// worktree instead (used when trying a seeded change while a long background run is reading /repo).
var repoDir = func() string {
	if d := os.Getenv("VERIF_REPO"); d != "" {
		return d
	}
	return "/repo"
}()
var repoPkgDir = repoDir + "/trzsz"

// loadProgram loads /repo/trzsz from the working tree with the given overlay files (virtual path -> content).
func loadProgram(overlay map[string][]byte) (*Program, error) {
	t0 := time.Now()
	cfg := &packages.Config{
		Mode:    packages.LoadAllSyntax,
		Dir:     repoDir,
		Overlay: overlay,
		Env:     append(os.Environ(), "GOFLAGS=-mod=mod", "GOPROXY=off", "GOSUMDB=off", "GOTOOLCHAIN=local"),
	}
	pkgs, err := packages.Load(cfg, "./trzsz")
	if err != nil {
		return nil, err
	}
	var errs []string
	packages.Visit(pkgs, nil, func(p *packages.Package) {
		for _, e := range p.Errors {
			errs = append(errs, e.Error())
		}
	})
	if len(errs) > 0 {
		return nil, fmt.Errorf("load errors:\n%s", strings.Join(errs, "\n"))
	}
	prog, spkgs := ssautil.AllPackages(pkgs, ssa.InstantiateGenerics)
	prog.Build()
	var fl []string
	for k := range overlay {
		fl = append(fl, k)
	}
	sort.Strings(fl)
	return &Program{prog: prog, pkg: spkgs[0], loadS: time.Since(t0).Seconds(), files: fl}, nil
}

func solverArgs(name string, queryMs int) []string {
	switch name {
	case "cvc5":
		a := []string{"cvc5", "--incremental", "--lang=smt2", "--produce-models"}
		if queryMs > 0 {
			a = append(a, fmt.Sprintf("--tlimit-per=%d", queryMs))
		}
		if os.Getenv("CVC5_BVINT") != "" {
			a = append(a, "--solve-bv-as-int="+os.Getenv("CVC5_BVINT"))
		}
		return a
	case "", "z3":
		return []string{"z3", "-in"}
	}
	return []string{name, "-in"}
}

func newWorkerSolver(name string, queryMs int) (*Solver, error) {
	sol, err := NewSolver(solverArgs(name, queryMs)...)
	if err != nil {
		return nil, err
	}
	if name == "cvc5" {
		sol.logic = "QF_BV"
	} else {
		sol.timeoutMs = queryMs
	}
	return sol, nil
}

func (w *Worker) runPath(fn *ssa.Function, prefix []Dec, fixed map[string]uint64, wantModel bool) (res PathResult) {
	ts := NewTermStore()
	w.sol.Reset()
	o := w.opts
	ex := &Exec{prog: w.prog, pkg: w.pkg, ts: ts, sol: w.sol, prefix: prefix, globals: map[*ssa.Global]Loc{},
		opaques: map[string]*Opaque{}, maxSteps: o.MaxSteps, loopBound: o.Unwind, reached: map[string]bool{},
		funcsUsed: map[string]int{}, stubsUsed: map[string]int{}, bounds: o.Bounds, fixed: fixed}
	finish := func() {
		res.decisions = ex.decisions
		res.steps = ex.steps
		res.viols = ex.viols
		res.pending = ex.pending
		res.reached = ex.reached
		res.funcs = ex.funcsUsed
		res.stubs = ex.stubsUsed
		res.inconcl = ex.inconcl
		res.notes = ex.notes
	}
	defer func() {
		if r := recover(); r != nil {
			switch e := r.(type) {
			case pathEnd:
				res.status, res.msg = e.status, e.msg
				if e.status == "blocked" {
					if ex.expectBlk == 2 {
						res.status = "blocked-expected"
					} else if ex.expectBlk == 1 {
						ex.violation("blocked", "blocked although the awaited input is complete: "+e.msg, nil)
					} else {
						ex.violation("deadlock", e.msg, nil)
					}
				}
			case goPanic:
				res.status, res.msg = "panic", e.msg
				if !ex.allowPanic {
					ex.violation("panic", e.msg, nil)
				}
			case unsupportedErr:
				res.status, res.msg = "unsupported", e.msg
			default:
				panic(r)
			}
		}
		if wantModel || res.status == "unwind" || res.status == "unsupported" {
			if fixed == nil && res.status != "assume" && res.status != "infeasible" {
				if st, m := ex.sol.CheckModel(nil, append(append([]*Term{}, ex.nondets...), ex.envTerms()...)); st == "sat" {
					res.model = m
					res.hvals = ex.harnessVals(m)
					res.env = ex.envOf(m)
				}
			}
		}
		finish()
	}()
	ex.side = map[interface{}]interface{}{}
	ex.pureCache = map[*ssa.Function]bool{}
	ex.lits = map[int]bool{}
	ex.exploreSched = o.Sched
	ex.allowPanic = o.AllowPanic
	ex.preemptBound = o.Preempt
	ex.runThreads(func() {
		for _, p := range w.prog.AllPackages() {
			if p.Pkg.Path() == "unicode/utf8" { // small pure-data package whose tables executed library code indexes
				if f := p.Func("init"); f != nil {
					ex.call(Closure{fn: f}, nil, nil)
				}
			}
		}
		if initFn := w.pkg.Func("init"); initFn != nil {
			ex.call(Closure{fn: initFn}, nil, nil)
		}
		ex.call(Closure{fn: fn}, nil, nil)
	})
	if ex.expectBlk == 2 {
		ex.violation("noblock", "returned although it was expected to wait for more input", nil)
	}
	res.status = "ok"
	return
}

// explore runs the harness entry over all feasible paths within the bounds of opts.
func explore(p *Program, opts RunOpts) (*RunResult, error) {
	fn := p.pkg.Func(opts.Entry)
	if fn == nil {
		return nil, fmt.Errorf("no harness entry %s", opts.Entry)
	}
	if opts.Workers <= 0 {
		opts.Workers = 16
	}
	if opts.Unwind <= 0 {
		opts.Unwind = 5000
	}
	if opts.MaxSteps <= 0 {
		opts.MaxSteps = 2000000
	}
	if opts.MaxPaths <= 0 {
		opts.MaxPaths = 1000000
	}
	if opts.QueryMs <= 0 {
		opts.QueryMs = 20000
	}
	t0 := time.Now()
	rr := &RunResult{Opts: opts, Status: map[string]int{}, Msgs: map[string]int{}, Reached: map[string]int{},
		Funcs: map[string]int{}, Stubs: map[string]int{}, Queries: map[string]int{}, Notes: map[string]int{}}
	var mu sync.Mutex
	work := [][]Dec{nil}
	active := 0
	cond := sync.NewCond(&mu)
	stop := false
	var wg sync.WaitGroup
	var firstErr error
	for wi := 0; wi < opts.Workers; wi++ {
		wg.Add(1)
		go func(wi int) {
			defer wg.Done()
			sol, err := newWorkerSolver(opts.Solver, opts.QueryMs)
			if err != nil {
				mu.Lock()
				firstErr = err
				stop = true
				mu.Unlock()
				cond.Broadcast()
				return
			}
			if lf := os.Getenv("VSYM_LOG"); lf != "" && wi == 0 {
				f, _ := os.Create(lf)
				sol.log = f
			}
			w := &Worker{prog: p.prog, pkg: p.pkg, sol: sol, opts: &opts}
			for {
				mu.Lock()
				for len(work) == 0 && active > 0 && !stop {
					cond.Wait()
				}
				if !opts.Deadline.IsZero() && time.Now().After(opts.Deadline) {
					rr.TimedOut = true
					stop = true
				}
				if rr.Paths >= opts.MaxPaths && len(work) > 0 {
					rr.Truncated = true
					stop = true
				}
				if len(work) == 0 || stop {
					mu.Unlock()
					cond.Broadcast()
					break
				}
				pfx := work[len(work)-1]
				work = work[:len(work)-1]
				active++
				n := rr.Paths + active
				mu.Unlock()
				want := opts.SampleEvery > 0 && (n <= 40 || n%opts.SampleEvery == 0)
				r := w.runPath(fn, pfx, nil, want)
				mu.Lock()
				active--
				rr.Paths++
				rr.Status[r.status]++
				if r.status != "ok" && r.status != "assume" {
					rr.Msgs[r.status+": "+r.msg]++
				}
				work = append(work, r.pending...)
				rr.Viols = append(rr.Viols, r.viols...)
				if opts.MaxViol > 0 && len(rr.Viols) >= opts.MaxViol {
					stop = true
					rr.Truncated = true
				}
				for k := range r.reached {
					rr.Reached[k]++
				}
				for k, v := range r.funcs {
					rr.Funcs[k] += v
				}
				for k, v := range r.stubs {
					rr.Stubs[k] += v
				}
				for _, nt := range r.notes {
					rr.Notes[nt]++
				}
				rr.Steps += r.steps
				rr.Decisions += len(r.decisions)
				rr.Inconcl += r.inconcl
				if r.model != nil {
					ps := PathSample{Entry: opts.Entry, Status: r.status, Msg: r.msg, Inputs: r.hvals, Env: r.env, Bounds: opts.Bounds, NDec: len(r.decisions)}
					for k := range r.reached {
						ps.Reached = append(ps.Reached, k)
					}
					sort.Strings(ps.Reached)
					if r.status == "unwind" || r.status == "unsupported" {
						if len(rr.Undecided) < 20 {
							rr.Undecided = append(rr.Undecided, ps)
						}
					} else if len(rr.Samples) < 400 {
						rr.Samples = append(rr.Samples, ps)
					}
				}
				mu.Unlock()
				cond.Broadcast()
			}
			mu.Lock()
			rr.SolverS += sol.dur.Seconds()
			rr.Queries["sat"] += sol.nSat
			rr.Queries["unsat"] += sol.nUnsat
			rr.Queries["unknown"] += sol.nUnk
			rr.Queries["error"] += sol.nErr
			mu.Unlock()
			sol.Close()
		}(wi)
	}
	wg.Wait()
	rr.WallS = time.Since(t0).Seconds()
	for i := range rr.Viols {
		rr.Viols[i].entry = opts.Entry
		rr.Viols[i].bounds = opts.Bounds
	}
	return rr, firstErr
}

// replayInterp re-executes one path with every nondet fixed to the model's value: all branches are concrete,
// so this validates the solver's model and the path bookkeeping against the executor's concrete semantics.
func replayInterp(p *Program, opts RunOpts, decisions []Dec, model map[string]uint64) (PathResult, error) {
	fn := p.pkg.Func(opts.Entry)
	if fn == nil {
		return PathResult{}, fmt.Errorf("no harness entry %s", opts.Entry)
	}
	sol, err := newWorkerSolver(opts.Solver, opts.QueryMs)
	if err != nil {
		return PathResult{}, err
	}
	defer sol.Close()
	if opts.Unwind <= 0 {
		opts.Unwind = 5000
	}
	if opts.MaxSteps <= 0 {
		opts.MaxSteps = 2000000
	}
	w := &Worker{prog: p.prog, pkg: p.pkg, sol: sol, opts: &opts}
	return w.runPath(fn, decisions, model, false), nil
}
