package main

import (
	"fmt"
	"runtime/debug"
	"strings"

	"golang.org/x/tools/go/ssa"
)

// Cooperative threads. Every symbolic goroutine (including the harness main) runs in its own host
// goroutine; the scheduler loop (in the runPath goroutine) resumes exactly one at a time and waits
// for its next event. Only the running thread touches executor state.

type threadKilled struct{}

type evKind int

const (
	evDone evKind = iota
	evBlocked
	evPanic
	evKilled
)

type event struct {
	kind  evKind
	ready func() bool
	desc  string
	val   interface{}
}

type Thread struct {
	stack  []*ssa.Function
	id     int
	resume chan bool
	done   bool
	ready  func() bool
	desc   string
	body   func()
}

type schedState struct {
	threads []*Thread
	cur        *Thread
	events     chan event
	curRunning bool
}

func (ex *Exec) spawn(body func()) *Thread {
	t := &Thread{id: len(ex.sch.threads), resume: make(chan bool), body: body}
	ex.sch.threads = append(ex.sch.threads, t)
	go ex.threadMain(t)
	return t
}

func (ex *Exec) threadMain(t *Thread) {
	defer func() {
		r := recover()
		switch r.(type) {
		case nil:
			ex.sch.events <- event{kind: evDone}
		case threadKilled:
			ex.sch.events <- event{kind: evKilled}
		default:
			switch r.(type) {
			case pathEnd, goPanic, unsupportedErr:
			default:
				fmt.Printf("ENGINE PANIC: %v\n%s\n", r, debug.Stack())
			}
			ex.sch.events <- event{kind: evPanic, val: r}
		}
	}()
	if !<-t.resume {
		panic(threadKilled{})
	}
	t.body()
}

func (t *Thread) runnable() bool {
	return !t.done && (t.ready == nil || t.ready())
}

func (ex *Exec) pickNext() *Thread {
	s := ex.sch
	var cands []*Thread
	n := len(s.threads)
	for k := 1; k <= n; k++ {
		t := s.threads[(s.cur.id+k)%n]
		if t.runnable() {
			cands = append(cands, t)
		}
	}
	if len(cands) == 0 {
		return nil
	}
	if !ex.exploreSched || len(cands) == 1 {
		return cands[0]
	}
	curRunnable := s.cur.runnable()
	if curRunnable && ex.preemptBound >= 0 && ex.preemptions >= ex.preemptBound {
		return s.cur // context bound reached: the running thread continues until it blocks
	}
	pick := cands[len(cands)-1]
	for i := 0; i < len(cands)-1; i++ {
		v := ex.mkNondet(BoolSort, fmt.Sprintf("sched%d", ex.nsched))
		ex.nsched++
		if ex.decideFree(v) {
			pick = cands[i]
			break
		}
	}
	if curRunnable && pick != s.cur {
		ex.preemptions++
	}
	return pick
}

func (ex *Exec) killAll() {
	for _, t := range ex.sch.threads {
		if !t.done {
			t.done = true
			if t == ex.sch.cur && ex.sch.curRunning {
				continue
			}
			t.resume <- false
			<-ex.sch.events
		}
	}
}

// runThreads runs mainBody as thread 0 until it finishes; re-panics path-ending conditions.
func (ex *Exec) runThreads(mainBody func()) {
	ex.sch = &schedState{events: make(chan event)}
	main := ex.spawn(mainBody)
	ex.sch.cur = main
	var fail interface{}
	func() {
		defer func() {
			if r := recover(); r != nil {
				fail = r
			}
		}()
		for {
			cur := ex.sch.cur
			cur.ready = nil
			cur.resume <- true
			ev := <-ex.sch.events
			switch ev.kind {
			case evDone:
				cur.done = true
				if cur == main {
					return
				}
			case evBlocked:
				cur.ready, cur.desc = ev.ready, ev.desc
			case evPanic:
				cur.done = true
				panic(ev.val)
			}
			nxt := ex.pickNext()
			if nxt == nil {
				panic(pathEnd{"blocked", "deadlock: " + ex.blockedDesc()})
			}
			ex.sch.cur = nxt
		}
	}()
	ex.killAll()
	if fail != nil {
		panic(fail)
	}
}

func (ex *Exec) blockedDesc() string {
	d := ""
	for _, t := range ex.sch.threads {
		if !t.done {
			d += fmt.Sprintf("[T%d %s]", t.id, t.desc)
		}
	}
	return d
}

// park suspends the current thread; it is resumed when ready() (nil = immediately runnable).
// site names the innermost function of the code under test (not harness, not library) the thread is executing.
func (t *Thread) site() string {
	for i := len(t.stack) - 1; i >= 0; i-- {
		f := t.stack[i]
		if f.Pkg != nil && strings.HasSuffix(f.Pkg.Pkg.Path(), "/trzsz") && !strings.Contains(f.String(), "trzsz.zz") && !strings.Contains(f.String(), "trzsz.verif") {
			n := f.String()
			return n[strings.LastIndex(n, "/")+1:]
		}
	}
	return "harness"
}

func (ex *Exec) park(ready func() bool, desc string) {
	t := ex.sch.cur
	if ready != nil {
		desc = desc + " in " + t.site()
	}
	ex.sch.events <- event{kind: evBlocked, ready: ready, desc: desc}
	if !<-t.resume {
		panic(threadKilled{})
	}
}

func (ex *Exec) wait(ready func() bool, desc string) {
	for !ready() {
		ex.park(ready, desc)
	}
}

func (ex *Exec) yield() { ex.park(nil, "yield") }

// liveSites lists the blocking sites of all unfinished threads other than the harness main thread.
func (ex *Exec) liveSites() []string {
	var out []string
	for _, t := range ex.sch.threads {
		if t.id != 0 && !t.done {
			out = append(out, t.desc)
		}
	}
	return out
}

func (ex *Exec) liveThreads() int {
	n := 0
	for _, t := range ex.sch.threads {
		if t.id != 0 && !t.done {
			n++
		}
	}
	return n
}

func (ex *Exec) othersQuiescent(me *Thread) bool {
	for _, t := range ex.sch.threads {
		if t != me && t.runnable() {
			return false
		}
	}
	return true
}
