package main

import (
	"fmt"
	"sort"
	"strings"
)

// Sort: 0 = Bool, n>0 = BitVec n
type Sort int

const BoolSort Sort = 0

type Op int

const (
	OpConst Op = iota
	OpVar
	OpNot
	OpAnd
	OpOr
	OpIte
	OpEq
	OpAdd
	OpSub
	OpMul
	OpUDiv
	OpSDiv
	OpURem
	OpSRem
	OpBAnd
	OpBOr
	OpBXor
	OpShl
	OpLShr
	OpAShr
	OpULt
	OpSLt
	OpULe
	OpSLe
	OpZExt
	OpSExt
	OpExtract // val = hi<<8|lo
	OpNeg
	OpBNot
)

var opNames = map[Op]string{OpNot: "not", OpAnd: "and", OpOr: "or", OpIte: "ite", OpEq: "=", OpAdd: "bvadd", OpSub: "bvsub",
	OpMul: "bvmul", OpUDiv: "bvudiv", OpSDiv: "bvsdiv", OpURem: "bvurem", OpSRem: "bvsrem", OpBAnd: "bvand", OpBOr: "bvor",
	OpBXor: "bvxor", OpShl: "bvshl", OpLShr: "bvlshr", OpAShr: "bvashr", OpULt: "bvult", OpSLt: "bvslt", OpULe: "bvule",
	OpSLe: "bvsle", OpNeg: "bvneg", OpBNot: "bvnot"}

type Term struct {
	id   int
	op   Op
	sort Sort
	args []*Term
	val  uint64
	name string
}

type TermStore struct {
	tab   map[string]*Term
	terms []*Term
	T, F  *Term
}

func NewTermStore() *TermStore {
	ts := &TermStore{tab: map[string]*Term{}}
	ts.T = ts.mk(OpConst, BoolSort, nil, 1, "")
	ts.F = ts.mk(OpConst, BoolSort, nil, 0, "")
	return ts
}

func (ts *TermStore) mk(op Op, s Sort, args []*Term, val uint64, name string) *Term {
	var sb strings.Builder
	fmt.Fprintf(&sb, "%d:%d:%d:%s", op, s, val, name)
	for _, a := range args {
		fmt.Fprintf(&sb, ":%d", a.id)
	}
	k := sb.String()
	if t, ok := ts.tab[k]; ok {
		return t
	}
	t := &Term{id: len(ts.terms), op: op, sort: s, args: args, val: val, name: name}
	ts.terms = append(ts.terms, t)
	ts.tab[k] = t
	return t
}

func mask(w Sort) uint64 {
	if w >= 64 {
		return ^uint64(0)
	}
	return (uint64(1) << uint(w)) - 1
}

func (t *Term) IsConst() bool { return t.op == OpConst }
func (t *Term) IsTrue() bool  { return t.op == OpConst && t.sort == BoolSort && t.val == 1 }
func (t *Term) IsFalse() bool { return t.op == OpConst && t.sort == BoolSort && t.val == 0 }

func (ts *TermStore) Const(w Sort, v uint64) *Term { return ts.mk(OpConst, w, nil, v&mask(w), "") }
func (ts *TermStore) Bool(b bool) *Term {
	if b {
		return ts.T
	}
	return ts.F
}
func (ts *TermStore) Var(w Sort, name string) *Term { return ts.mk(OpVar, w, nil, 0, name) }

func sext(v uint64, w Sort) int64 {
	if w >= 64 {
		return int64(v)
	}
	sh := 64 - uint(w)
	return int64(v<<sh) >> sh
}

func (ts *TermStore) Not(a *Term) *Term {
	if a.IsConst() {
		return ts.Bool(a.val == 0)
	}
	if a.op == OpNot {
		return a.args[0]
	}
	return ts.mk(OpNot, BoolSort, []*Term{a}, 0, "")
}

func (ts *TermStore) And(a, b *Term) *Term {
	if a.IsFalse() || b.IsFalse() {
		return ts.F
	}
	if a.IsTrue() {
		return b
	}
	if b.IsTrue() {
		return a
	}
	if a == b {
		return a
	}
	return ts.mk(OpAnd, BoolSort, []*Term{a, b}, 0, "")
}

func (ts *TermStore) Or(a, b *Term) *Term {
	if a.IsTrue() || b.IsTrue() {
		return ts.T
	}
	if a.IsFalse() {
		return b
	}
	if b.IsFalse() {
		return a
	}
	if a == b {
		return a
	}
	return ts.mk(OpOr, BoolSort, []*Term{a, b}, 0, "")
}

func (ts *TermStore) Ite(c, a, b *Term) *Term {
	if c.IsTrue() {
		return a
	}
	if c.IsFalse() {
		return b
	}
	if a == b {
		return a
	}
	if a.sort == BoolSort {
		if a.IsTrue() && b.IsFalse() {
			return c
		}
		if a.IsFalse() && b.IsTrue() {
			return ts.Not(c)
		}
	}
	return ts.mk(OpIte, a.sort, []*Term{c, a, b}, 0, "")
}

func (ts *TermStore) Eq(a, b *Term) *Term {
	if a == b {
		return ts.T
	}
	if a.IsConst() && b.IsConst() {
		return ts.Bool(a.val == b.val)
	}
	if a.sort != b.sort {
		panic(fmt.Sprintf("Eq sort mismatch %d %d", a.sort, b.sort))
	}
	if a.id > b.id {
		a, b = b, a
	}
	// eq(ite(c,k1,k2), k) with constants
	return ts.mk(OpEq, BoolSort, []*Term{a, b}, 0, "")
}

func (ts *TermStore) Bin(op Op, a, b *Term) *Term {
	if a.sort != b.sort {
		panic(fmt.Sprintf("Bin %s sort mismatch %d %d", opNames[op], a.sort, b.sort))
	}
	w := a.sort
	rs := w
	switch op {
	case OpULt, OpSLt, OpULe, OpSLe:
		rs = BoolSort
	}
	if a.IsConst() && b.IsConst() {
		x, y := a.val, b.val
		var r uint64
		switch op {
		case OpAdd:
			r = x + y
		case OpSub:
			r = x - y
		case OpMul:
			r = x * y
		case OpUDiv:
			if y == 0 {
				r = mask(w)
			} else {
				r = x / y
			}
		case OpURem:
			if y == 0 {
				r = x
			} else {
				r = x % y
			}
		case OpSDiv:
			if y == 0 {
				goto nofold
			}
			r = uint64(sext(x, w) / sext(y, w))
		case OpSRem:
			if y == 0 {
				goto nofold
			}
			r = uint64(sext(x, w) % sext(y, w))
		case OpBAnd:
			r = x & y
		case OpBOr:
			r = x | y
		case OpBXor:
			r = x ^ y
		case OpShl:
			if y >= uint64(w) {
				r = 0
			} else {
				r = x << y
			}
		case OpLShr:
			if y >= uint64(w) {
				r = 0
			} else {
				r = x >> y
			}
		case OpAShr:
			if y >= uint64(w) {
				y = uint64(w) - 1
			}
			r = uint64(sext(x, w) >> y)
		case OpULt:
			return ts.Bool(x < y)
		case OpULe:
			return ts.Bool(x <= y)
		case OpSLt:
			return ts.Bool(sext(x, w) < sext(y, w))
		case OpSLe:
			return ts.Bool(sext(x, w) <= sext(y, w))
		}
		return ts.Const(w, r)
	}
nofold:
	switch op {
	case OpAdd:
		if a.IsConst() && a.val == 0 {
			return b
		}
		if b.IsConst() && b.val == 0 {
			return a
		}
		return ts.sumNF(w, a, b)
	case OpSub:
		if b.IsConst() {
			return ts.Bin(OpAdd, a, ts.Const(w, -b.val))
		}
		if a == b {
			return ts.Const(w, 0)
		}
	case OpMul:
		if a.IsConst() {
			a, b = b, a
		}
		if b.IsConst() && b.val == 1 {
			return a
		}
		if b.IsConst() && b.val == 0 {
			return b
		}
	case OpULt, OpSLt:
		if a == b {
			return ts.F
		}
	case OpULe, OpSLe:
		if a == b {
			return ts.T
		}
	}
	return ts.mk(op, rs, []*Term{a, b}, 0, "")
}

func (ts *TermStore) ZExt(a *Term, w Sort) *Term {
	if a.sort == w {
		return a
	}
	if a.sort > w {
		return ts.Extract(a, int(w)-1, 0)
	}
	if a.IsConst() {
		return ts.Const(w, a.val)
	}
	return ts.mk(OpZExt, w, []*Term{a}, 0, "")
}

func (ts *TermStore) SExt(a *Term, w Sort) *Term {
	if a.sort == w {
		return a
	}
	if a.sort > w {
		return ts.Extract(a, int(w)-1, 0)
	}
	if a.IsConst() {
		return ts.Const(w, uint64(sext(a.val, a.sort)))
	}
	return ts.mk(OpSExt, w, []*Term{a}, 0, "")
}

func (ts *TermStore) Extract(a *Term, hi, lo int) *Term {
	w := Sort(hi - lo + 1)
	if w == a.sort {
		return a
	}
	if a.IsConst() {
		return ts.Const(w, a.val>>uint(lo))
	}
	if (a.op == OpZExt || a.op == OpSExt) && lo == 0 && w <= a.args[0].sort {
		return ts.Extract(a.args[0], hi, 0)
	}
	return ts.mk(OpExtract, w, []*Term{a}, uint64(hi)<<8|uint64(lo), "")
}

func (ts *TermStore) Neg(a *Term) *Term {
	if a.IsConst() {
		return ts.Const(a.sort, -a.val)
	}
	return ts.mk(OpNeg, a.sort, []*Term{a}, 0, "")
}

func (ts *TermStore) BNot(a *Term) *Term {
	if a.IsConst() {
		return ts.Const(a.sort, ^a.val)
	}
	return ts.mk(OpBNot, a.sort, []*Term{a}, 0, "")
}

func sortStr(s Sort) string {
	if s == BoolSort {
		return "Bool"
	}
	return fmt.Sprintf("(_ BitVec %d)", int(s))
}

func (t *Term) ref() string {
	switch t.op {
	case OpConst:
		if t.sort == BoolSort {
			if t.val == 1 {
				return "true"
			}
			return "false"
		}
		if t.sort%4 == 0 {
			return fmt.Sprintf("#x%0*x", int(t.sort)/4, t.val)
		}
		return fmt.Sprintf("(_ bv%d %d)", t.val, int(t.sort))
	case OpVar:
		return t.name
	}
	return fmt.Sprintf("t%d", t.id)
}

// def returns the define-fun / declare line for a term (non-const).
func (t *Term) def() string {
	switch t.op {
	case OpConst:
		return ""
	case OpVar:
		return fmt.Sprintf("(declare-const %s %s)", t.name, sortStr(t.sort))
	}
	var body string
	switch t.op {
	case OpZExt:
		body = fmt.Sprintf("((_ zero_extend %d) %s)", int(t.sort-t.args[0].sort), t.args[0].ref())
	case OpSExt:
		body = fmt.Sprintf("((_ sign_extend %d) %s)", int(t.sort-t.args[0].sort), t.args[0].ref())
	case OpExtract:
		body = fmt.Sprintf("((_ extract %d %d) %s)", t.val>>8, t.val&0xff, t.args[0].ref())
	default:
		var sb strings.Builder
		sb.WriteString("(" + opNames[t.op])
		for _, a := range t.args {
			sb.WriteString(" " + a.ref())
		}
		sb.WriteString(")")
		body = sb.String()
	}
	return fmt.Sprintf("(define-fun t%d () %s %s)", t.id, sortStr(t.sort), body)
}

// sumNF builds a canonical (sorted, flattened) sum so that differently associated sums coincide.
func (ts *TermStore) sumNF(w Sort, a, b *Term) *Term {
	var terms []*Term
	c := uint64(0)
	var collect func(t *Term)
	collect = func(t *Term) {
		if t.op == OpConst {
			c += t.val
			return
		}
		if t.op == OpAdd {
			for _, x := range t.args {
				collect(x)
			}
			return
		}
		terms = append(terms, t)
	}
	collect(a)
	collect(b)
	sort.Slice(terms, func(i, j int) bool { return terms[i].id < terms[j].id })
	c &= mask(w)
	if len(terms) == 0 {
		return ts.Const(w, c)
	}
	res := terms[0]
	for _, x := range terms[1:] {
		res = ts.mk(OpAdd, w, []*Term{res, x}, 0, "")
	}
	if c != 0 {
		res = ts.mk(OpAdd, w, []*Term{res, ts.Const(w, c)}, 0, "")
	}
	return res
}
