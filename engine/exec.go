package main

import (
	"sync"
	"fmt"
	"go/constant"
	"go/token"
	"go/types"
	"strings"

	"golang.org/x/tools/go/ssa"
)

type goPanic struct{ msg string }
type unsupportedErr struct{ msg string }

func unsupported(msg string) unsupportedErr { return unsupportedErr{msg} }

// pathEnd terminates the current path.
type pathEnd struct {
	status string // "assume", "blocked", "unwind", "infeasible"
	msg    string
}

type Opaque struct{ name string }

// Dec is one recorded decision: branch outcome b; m is the candidate value for concretize decisions.
type Dec struct {
	b bool
	m uint64
}

type deferred struct {
	fn   Value
	args []Value
}

type frame struct {
	fn        *ssa.Function
	env       map[ssa.Value]Value
	defers    []deferred
	panicking *goPanic
	recovered bool
}

type Violation struct {
	kind      string
	msg       string
	detail    string
	model     map[string]uint64
	hvals     []NondetVal
	env       []FSPre
	decisions []Dec
	entry     string
	bounds    map[string]int64
	reached   []string
}

type Exec struct {
	prog      *ssa.Program
	pkg       *ssa.Package
	ts        *TermStore
	sol       *Solver
	prefix    []Dec
	decisions []Dec
	pending   [][]Dec
	nondets   []*Term
	globals   map[*ssa.Global]Loc
	opaques   map[string]*Opaque
	steps     int
	narr      int
	maxSteps  int
	loopBound int
	expectBlk int // 0 none, 1 must not block, 2 must block
	viols     []Violation
	reached   map[string]bool
	funcsUsed map[string]int
	stubsUsed map[string]int
	assumps   int
	depth     int
	inconcl   int
	events    []string
	curPanicFrame []*frame
	sch          *schedState
	exploreSched bool
	nsched       int
	side         map[interface{}]interface{}
	pureCache    map[*ssa.Function]bool
	lits         map[int]bool
	clock        int
	timers       []*TimerObj
	bounds       map[string]int64
	fixed        map[string]uint64 // concrete re-execution: every nondet takes the model's value
	allowPanic   bool
	notes        []string
	hnondets     []*Term // harness-level nondets in call order (the replay vector)
	hnames       []string
	nInternal    int
	preemptBound int
	preemptions  int
}

func (ex *Exec) feasible(c *Term) bool {
	if c.IsConst() {
		return c.IsTrue()
	}
	r := ex.sol.Check(c)
	if r == "unknown" || strings.HasPrefix(r, "error") {
		ex.inconcl++
		return true
	}
	return r == "sat"
}

func (ex *Exec) assume(c *Term) {
	if c.IsTrue() {
		return
	}
	if c.IsFalse() {
		panic(pathEnd{"assume", ""})
	}
	ex.assertLit(c)
}

// decide resolves a symbolic branch condition.
func (ex *Exec) decide(c *Term) bool {
	if c.IsConst() {
		return c.IsTrue()
	}
	if v, ok := ex.known(c); ok {
		return v
	}
	return ex.decideM(c, 0)
}

func (ex *Exec) known(c *Term) (bool, bool) {
	if ex.lits[c.id] {
		return true, true
	}
	if ex.lits[ex.ts.Not(c).id] {
		return false, true
	}
	return false, false
}

func (ex *Exec) assertLit(c *Term) {
	ex.lits[c.id] = true
	ex.sol.Assert(c)
}

// decideFree decides a fresh unconstrained Boolean (a scheduler choice): both outcomes are feasible, no query needed.
func (ex *Exec) decideFree(c *Term) bool {
	if c.IsConst() {
		return c.IsTrue()
	}
	k := len(ex.decisions)
	if k < len(ex.prefix) {
		b := ex.prefix[k].b
		ex.decisions = append(ex.decisions, Dec{b, 0})
		if b {
			ex.assertLit(c)
		} else {
			ex.assertLit(ex.ts.Not(c))
		}
		return b
	}
	alt := make([]Dec, k+1)
	copy(alt, ex.decisions)
	alt[k] = Dec{false, 0}
	ex.pending = append(ex.pending, alt)
	ex.decisions = append(ex.decisions, Dec{true, 0})
	ex.assertLit(c)
	return true
}

// forkStat (VSYM_FORKSTAT=1): how many two-way forks each function of the code under test caused — a profiling aid
var forkStat map[string]int
var forkMu sync.Mutex

func (ex *Exec) decideM(c *Term, m uint64) bool {
	k := len(ex.decisions)
	if k < len(ex.prefix) {
		b := ex.prefix[k].b
		ex.decisions = append(ex.decisions, Dec{b, m})
		if b {
			ex.assertLit(c)
		} else {
			ex.assertLit(ex.ts.Not(c))
		}
		return b
	}
	ft := ex.feasible(c)
	ff := true
	if ft {
		ff = ex.feasible(ex.ts.Not(c))
	}
	if ft && ff {
		alt := make([]Dec, k+1)
		copy(alt, ex.decisions)
		alt[k] = Dec{false, m}
		ex.pending = append(ex.pending, alt)
		if forkStat != nil {
			where := "?"
			if th := ex.sch.cur; th != nil && len(th.stack) > 0 {
				where = th.stack[len(th.stack)-1].String()
			}
			forkMu.Lock()
			forkStat[where]++
			forkMu.Unlock()
		}
	}
	b := ft
	ex.decisions = append(ex.decisions, Dec{b, m})
	if ft && ff {
		if b {
			ex.assertLit(c)
		} else {
			ex.assertLit(ex.ts.Not(c))
		}
	} else if b {
		ex.lits[c.id] = true
	} else {
		ex.lits[ex.ts.Not(c).id] = true
	}
	return b
}

// concretize forces term t to a concrete value, forking over feasible values.
func (ex *Exec) concretize(t *Term) uint64 {
	for n := 0; n < 100000; n++ {
		if t.IsConst() {
			return t.val
		}
		var m uint64
		k := len(ex.decisions)
		if k < len(ex.prefix) {
			m = ex.prefix[k].m
		} else {
			v := ex.ts.Var(t.sort, fmt.Sprintf("cz%d_%d", t.id, int(t.sort)))
			res, mm := ex.sol.CheckModel(ex.ts.Eq(v, t), []*Term{v})
			if res != "sat" {
				panic(pathEnd{"infeasible", "concretize"})
			}
			m = mm[v.name]
		}
		c := ex.ts.Const(t.sort, m)
		if ex.decideM(ex.ts.Eq(t, c), m) {
			return m
		}
	}
	panic(unsupported("concretize: too many values"))
}

// nondet creates an engine-internal nondeterministic value (stub choices).
func (ex *Exec) nondet(s Sort) *Term {
	name := fmt.Sprintf("e%d_%d", ex.nInternal, int(s))
	ex.nInternal++
	return ex.mkNondet(s, name)
}

// nondetH creates a harness-level nondeterministic input; these form the native replay vector.
func (ex *Exec) nondetH(s Sort) *Term {
	name := fmt.Sprintf("h%d_%d", len(ex.hnames), int(s))
	ex.hnames = append(ex.hnames, name)
	t := ex.mkNondet(s, name)
	ex.hnondets = append(ex.hnondets, t)
	return t
}

func (ex *Exec) mkNondet(s Sort, name string) *Term {
	if ex.fixed != nil {
		if s == BoolSort {
			return ex.ts.Bool(ex.fixed[name] != 0)
		}
		return ex.ts.Const(s, ex.fixed[name])
	}
	v := ex.ts.Var(s, name)
	ex.nondets = append(ex.nondets, v)
	return v
}

func (ex *Exec) envOf(m map[string]uint64) []FSPre {
	return ex.buildEnv(func(t *Term) uint64 {
		if t.IsConst() {
			return t.val
		}
		if t.op == OpVar {
			return m[t.name]
		}
		return m[t.ref()]
	})
}

func (ex *Exec) harnessVals(m map[string]uint64) []NondetVal {
	out := make([]NondetVal, 0, len(ex.hnames))
	for i, n := range ex.hnames {
		t := ex.hnondets[i]
		v := m[n]
		if t.IsConst() {
			v = t.val
		}
		out = append(out, NondetVal{Name: n, Bits: int(t.sort), Val: v})
	}
	return out
}

func (ex *Exec) violation(kind, msg string, cond *Term) {
	// cond: condition under which violation happens (nil = always on this path)
	if ex.fixed != nil {
		if cond == nil || cond.IsTrue() {
			ex.viols = append(ex.viols, Violation{kind: kind, msg: msg, model: ex.fixed})
		} else if !cond.IsConst() {
			ex.notes = append(ex.notes, "non-constant condition in concrete re-execution: "+msg)
		}
		return
	}
	if cond != nil && cond.IsFalse() {
		return
	}
	res, m := ex.sol.CheckModel(cond, append(append([]*Term{}, ex.nondets...), ex.envTerms()...))
	if res == "unsat" {
		if cond == nil {
			fmt.Println("VIOLATION-CHECK unsat on path end:", kind, msg, ex.decisions)
		}
		return
	}
	if res != "sat" {
		fmt.Println("VIOLATION-CHECK non-sat:", kind, msg, res)
		ex.inconcl++
		return
	}
	var rl []string
	for k := range ex.reached {
		rl = append(rl, k)
	}
	ex.viols = append(ex.viols, Violation{kind: kind, msg: msg, model: m, hvals: ex.harnessVals(m), env: ex.envOf(m),
		decisions: append([]Dec(nil), ex.decisions...), reached: rl})
}

func (ex *Exec) constValue(c *ssa.Const) Value {
	if c.Value == nil {
		return ex.zero(c.Type())
	}
	t := c.Type().Underlying()
	if b, ok := t.(*types.Basic); ok {
		switch {
		case b.Info()&types.IsBoolean != 0:
			return ex.ts.Bool(constant.BoolVal(c.Value))
		case b.Info()&types.IsInteger != 0:
			s := sortOf(t)
			if i, ok := constant.Int64Val(constant.ToInt(c.Value)); ok {
				return ex.ts.Const(s, uint64(i))
			}
			u, _ := constant.Uint64Val(constant.ToInt(c.Value))
			return ex.ts.Const(s, u)
		case b.Info()&types.IsString != 0:
			return ex.strConst(constant.StringVal(c.Value))
		case b.Info()&types.IsFloat != 0:
			return FVal{"const:" + c.Value.ExactString(), nil}
		}
	}
	panic(unsupported("const of type " + c.Type().String()))
}

func (ex *Exec) strConst(s string) Str {
	b := make([]*Term, len(s))
	for i := 0; i < len(s); i++ {
		b[i] = ex.ts.Const(8, uint64(s[i]))
	}
	return Str{b}
}

func (ex *Exec) get(fr *frame, v ssa.Value) Value {
	switch x := v.(type) {
	case *ssa.Const:
		return ex.constValue(x)
	case *ssa.Global:
		return Ptr{loc: ex.globalLoc(x)}
	case *ssa.Function:
		return Closure{fn: x}
	case *ssa.Builtin:
		return x
	}
	r, ok := fr.env[v]
	if !ok {
		panic(fmt.Sprintf("no value for %s in %s", v.Name(), fr.fn))
	}
	return r
}

func (ex *Exec) globalLoc(g *ssa.Global) Loc {
	if l, ok := ex.globals[g]; ok {
		return l
	}
	t := g.Type().(*types.Pointer).Elem()
	var l Loc
	if g.Pkg != ex.pkg && !isAggregate(t) {
		// external global: opaque distinct object
		c := &Cell{}
		switch t.Underlying().(type) {
		case *types.Interface:
			c.v = Iface{t: types.NewPointer(t), v: ex.opaque(g.String())}
		case *types.Basic:
			c.v = ex.zero(t)
		default:
			c.v = ex.opaque(g.String())
		}
		l = c
	} else {
		l = ex.newLoc(t)
	}
	ex.globals[g] = l
	return l
}

func (ex *Exec) opaque(name string) *Opaque {
	if o, ok := ex.opaques[name]; ok {
		return o
	}
	o := &Opaque{name}
	ex.opaques[name] = o
	return o
}

func (ex *Exec) call(fnv Value, args []Value, site ssa.Instruction) Value {
	cl, ok := fnv.(Closure)
	if !ok || cl.fn == nil {
		panic(goPanic{"call of nil function"})
	}
	fn := cl.fn
	if r, handled := ex.intrinsic(fn, args); handled {
		return r
	}
	if fn.Blocks == nil {
		panic(unsupported("external function " + fn.String()))
	}
	ex.funcsUsed[fn.String()]++
	if ex.isPureScalar(fn) {
		fr := &frame{fn: fn, env: map[ssa.Value]Value{}}
		for i, p := range fn.Params {
			fr.env[p] = args[i]
		}
		return ex.evalMerged(fr, fn.Blocks[0], nil)
	}
	ex.depth++
	if ex.depth > 200 {
		panic(unsupported("call depth"))
	}
	th := ex.sch.cur
	th.stack = append(th.stack, fn)
	defer func() { ex.depth--; th.stack = th.stack[:len(th.stack)-1] }()
	fr := &frame{fn: fn, env: map[ssa.Value]Value{}}
	for i, p := range fn.Params {
		fr.env[p] = args[i]
	}
	for i, fv := range fn.FreeVars {
		fr.env[fv] = cl.bind[i]
	}
	return ex.runFrame(fr)
}

func (ex *Exec) runFrame(fr *frame) (result Value) {
	defer func() {
		if r := recover(); r != nil {
			gp, ok := r.(goPanic)
			if !ok {
				panic(r)
			}
			fr.panicking = &gp
			ex.runDefers(fr)
			if fr.panicking != nil {
				panic(*fr.panicking)
			}
			// recovered
			if fr.fn.Recover != nil {
				result = ex.runBlocks(fr, fr.fn.Recover)
			} else {
				result = ex.zeroResults(fr.fn)
			}
		}
	}()
	return ex.runBlocks(fr, fr.fn.Blocks[0])
}

func (ex *Exec) zeroResults(fn *ssa.Function) Value {
	res := fn.Signature.Results()
	switch res.Len() {
	case 0:
		return nil
	case 1:
		return ex.zero(res.At(0).Type())
	}
	return ex.zero(res)
}

func (ex *Exec) runDefers(fr *frame) {
	for len(fr.defers) > 0 {
		d := fr.defers[len(fr.defers)-1]
		fr.defers = fr.defers[:len(fr.defers)-1]
		ex.curPanicFrame = append(ex.curPanicFrame, fr)
		func() {
			defer func() { ex.curPanicFrame = ex.curPanicFrame[:len(ex.curPanicFrame)-1] }()
			ex.callAny(d.fn, d.args)
		}()
	}
}

func (ex *Exec) callAny(fnv Value, args []Value) Value {
	switch f := fnv.(type) {
	case Closure:
		return ex.call(f, args, nil)
	case *ssa.Builtin:
		return ex.builtin(f, args, nil)
	case boundMethod:
		return ex.call(Closure{fn: f.fn}, append([]Value{f.recv}, args...), nil)
	case Native:
		return f.f(ex, args)
	}
	panic(unsupported(fmt.Sprintf("callAny %T", fnv)))
}

type boundMethod struct {
	fn   *ssa.Function
	recv Value
}

func (ex *Exec) runBlocks(fr *frame, b *ssa.BasicBlock) Value {
	var prev *ssa.BasicBlock
	visits := map[*ssa.BasicBlock]int{}
	for {
		visits[b]++
		if visits[b] > ex.loopBound {
			panic(pathEnd{"unwind", fmt.Sprintf("%s block %d", fr.fn, b.Index)})
		}
		var next *ssa.BasicBlock
		for _, in := range b.Instrs {
			ex.steps++
			if ex.steps > ex.maxSteps {
				panic(pathEnd{"unwind", "max steps"})
			}
			switch i := in.(type) {
			case *ssa.Phi:
				for k, p := range b.Preds {
					if p == prev {
						fr.env[i] = ex.get(fr, i.Edges[k])
						break
					}
				}
			case *ssa.Jump:
				next = b.Succs[0]
			case *ssa.If:
				c := ex.get(fr, i.Cond).(*Term)
				if ex.decide(c) {
					next = b.Succs[0]
				} else {
					next = b.Succs[1]
				}
			case *ssa.Return:
				ex.runDefersNormal(fr)
				switch len(i.Results) {
				case 0:
					return nil
				case 1:
					return ex.get(fr, i.Results[0])
				}
				tu := make(Tuple, len(i.Results))
				for k, r := range i.Results {
					tu[k] = ex.get(fr, r)
				}
				return tu
			case *ssa.RunDefers:
				ex.runDefersNormal(fr)
			case *ssa.Panic:
				v := ex.get(fr, i.X)
				panic(goPanic{"explicit panic: " + ex.describe(v)})
			default:
				ex.execInstr(fr, in)
			}
		}
		if next == nil {
			panic("block fell through")
		}
		prev, b = b, next
	}
}

func (ex *Exec) runDefersNormal(fr *frame) {
	if len(fr.defers) > 0 {
		ex.runDefers(fr)
	}
}

func (ex *Exec) describe(v Value) string {
	switch x := v.(type) {
	case Iface:
		return fmt.Sprintf("%v:%s", x.t, ex.describe(x.v))
	case Str:
		var sb strings.Builder
		for _, b := range x.b {
			if b.IsConst() {
				sb.WriteByte(byte(b.val))
			} else {
				sb.WriteByte('?')
			}
		}
		return sb.String()
	case *Term:
		if x.IsConst() {
			return fmt.Sprint(x.val)
		}
		return "sym"
	}
	return fmt.Sprintf("%T", v)
}

func (ex *Exec) execInstr(fr *frame, in ssa.Instruction) {
	switch i := in.(type) {
	case *ssa.Alloc:
		fr.env[i] = Ptr{loc: ex.newLoc(i.Type().(*types.Pointer).Elem())}
	case *ssa.UnOp:
		fr.env[i] = ex.unop(fr, i)
	case *ssa.BinOp:
		bx, by := ex.get(fr, i.X), ex.get(fr, i.Y)
		if _, isStr := bx.(Str); isStr {
			switch by.(type) {
			case Str, Rope:
			default:
				panic(unsupported(fmt.Sprintf("string %s %T at %s", i.Op, by, ex.prog.Fset.Position(i.Pos()))))
			}
		}
		fr.env[i] = ex.binop(i.Op, bx, by, i.X.Type())
	case *ssa.Store:
		ex.store(ex.get(fr, i.Addr), ex.get(fr, i.Val))
	case *ssa.FieldAddr:
		fr.env[i] = ex.fieldAddr(ex.get(fr, i.X), i.Field)
	case *ssa.Field:
		so := ex.get(fr, i.X).(*StructObj)
		f := so.fields[i.Field]
		if c, ok := f.(*Cell); ok {
			fr.env[i] = c.v
		} else {
			fr.env[i] = ex.cloneLoc(f)
		}
	case *ssa.IndexAddr:
		fr.env[i] = ex.indexAddr(ex.get(fr, i.X), ex.get(fr, i.Index).(*Term), i.Index.Type())
	case *ssa.Index:
		x := ex.get(fr, i.X)
		idx := ex.toInt(ex.get(fr, i.Index).(*Term), i.Index.Type())
		switch a := x.(type) {
		case *ArrayObj:
			ex.boundsCheck(idx, ex.ts.Const(64, uint64(a.n)), "index")
			fr.env[i] = ex.loadElem(a, idx)
		case Str:
			ex.boundsCheck(idx, ex.ts.Const(64, uint64(len(a.b))), "string index")
			fr.env[i] = ex.strIndex(a, idx)
		default:
			panic(unsupported(fmt.Sprintf("Index on %T", x)))
		}
	case *ssa.Slice:
		fr.env[i] = ex.sliceOp(fr, i)
	case *ssa.MakeSlice:
		fr.env[i] = ex.makeSlice(i.Type().Underlying().(*types.Slice).Elem(), ex.get(fr, i.Len).(*Term), ex.get(fr, i.Cap).(*Term), i.Len.Type())
	case *ssa.MakeInterface:
		fr.env[i] = Iface{t: i.X.Type(), v: ex.get(fr, i.X)}
	case *ssa.ChangeInterface:
		fr.env[i] = ex.get(fr, i.X)
	case *ssa.ChangeType:
		fr.env[i] = ex.get(fr, i.X)
	case *ssa.Convert:
		fr.env[i] = ex.convert(ex.get(fr, i.X), i.X.Type(), i.Type())
	case *ssa.Extract:
		fr.env[i] = ex.get(fr, i.Tuple).(Tuple)[i.Index]
	case *ssa.Call:
		fr.env[i] = ex.doCall(fr, &i.Call, i)
	case *ssa.Defer:
		fnv, args := ex.prepareCall(fr, &i.Call)
		fr.defers = append(fr.defers, deferred{fnv, args})
	case *ssa.MakeClosure:
		cl := Closure{fn: i.Fn.(*ssa.Function)}
		for _, b := range i.Bindings {
			cl.bind = append(cl.bind, ex.get(fr, b))
		}
		fr.env[i] = cl
	case *ssa.MakeChan:
		n := ex.get(fr, i.Size).(*Term)
		fr.env[i] = &Chan{cap: int(ex.concretize(n)), elemT: i.Type().Underlying().(*types.Chan).Elem()}
	case *ssa.Send:
		ch := ex.get(fr, i.Chan).(*Chan)
		ex.chanSend(ch, ex.get(fr, i.X))
	case *ssa.Select:
		fr.env[i] = ex.selectOp(fr, i)
	case *ssa.TypeAssert:
		fr.env[i] = ex.typeAssert(fr, i)
	case *ssa.MakeMap:
		mt := i.Type().Underlying().(*types.Map)
		fr.env[i] = &MapObj{keyT: mt.Key(), elemT: mt.Elem()}
	case *ssa.Lookup:
		fr.env[i] = ex.lookup(fr, i)
	case *ssa.MapUpdate:
		m := ex.get(fr, i.Map).(*MapObj)
		if m == nil {
			panic(goPanic{"assignment to entry in nil map"})
		}
		k, v := ex.get(fr, i.Key), ex.get(fr, i.Value)
		for idx := range m.ents {
			if ex.decide(ex.valueEq(m.ents[idx].k, k)) {
				m.ents[idx].v = v
				return
			}
		}
		m.ents = append(m.ents, MapEntry{k, v})
	case *ssa.Go:
		fnv, args := ex.prepareCall(fr, &i.Call)
		ex.spawn(func() { ex.callAny(fnv, args) })
	case *ssa.Range:
		fr.env[i] = &rangeIter{x: ex.get(fr, i.X)}
	case *ssa.Next:
		fr.env[i] = ex.rangeNext(ex.get(fr, i.Iter).(*rangeIter), i.IsString)
	case *ssa.DebugRef:
	default:
		panic(unsupported(fmt.Sprintf("instruction %T in %s", in, fr.fn)))
	}
}

func (ex *Exec) toInt(t *Term, typ types.Type) *Term {
	if t.sort == 64 {
		return t
	}
	if isSigned(typ) {
		return ex.ts.SExt(t, 64)
	}
	return ex.ts.ZExt(t, 64)
}

// boundsCheck panics (Go-level) on paths where !(0 <= idx < n).
func (ex *Exec) boundsCheck(idx, n *Term, what string) {
	ok := ex.ts.Bin(OpULt, idx, n)
	if !ex.decide(ok) {
		panic(goPanic{what + " out of range"})
	}
}

func (ex *Exec) fieldAddr(pv Value, field int) Value {
	if _, ok := pv.(*cmdState); ok {
		return Ptr{loc: &Cell{}}
	}
	switch p := pv.(type) {
	case Ptr:
		if p.isNil() {
			panic(goPanic{"nil pointer dereference (field)"})
		}
		so, ok := p.loc.(*StructObj)
		if !ok {
			panic(unsupported(fmt.Sprintf("FieldAddr on %T", p.loc)))
		}
		return Ptr{loc: so.fields[field]}
	case GPtr:
		var alts []GAlt
		for _, al := range p.alts {
			if al.p.isNil() {
				if ex.feasible(al.c) {
					panic(goPanic{"nil pointer dereference (guarded field)"})
				}
				continue
			}
			alts = append(alts, GAlt{al.c, ex.fieldAddr(al.p, field).(Ptr)})
		}
		return GPtr{alts}
	}
	panic(unsupported(fmt.Sprintf("FieldAddr through %T", pv)))
}

func (ex *Exec) indexAddr(x Value, idx *Term, idxT types.Type) Value {
	idx = ex.toInt(idx, idxT)
	switch a := x.(type) {
	case Slice:
		ex.boundsCheck(idx, a.len, "index")
		abs := ex.ts.Bin(OpAdd, a.off, idx)
		if a.arr.subs != nil {
			return Ptr{loc: a.arr.subs[int(ex.concretize(abs))]}
		}
		if !abs.IsConst() && !mergeable(a.arr.elemT) {
			abs = ex.ts.Const(64, ex.concretize(abs)) // case split: strings, slices, interfaces cannot be ite-merged
		}
		return Ptr{arr: a.arr, idx: abs}
	case Ptr:
		arr, ok := a.loc.(*ArrayObj)
		if !ok {
			panic(unsupported("IndexAddr on non-array pointer"))
		}
		ex.boundsCheck(idx, ex.ts.Const(64, uint64(arr.n)), "index")
		if arr.subs != nil {
			return Ptr{loc: arr.subs[int(ex.concretize(idx))]}
		}
		if !idx.IsConst() && !mergeable(arr.elemT) {
			idx = ex.ts.Const(64, ex.concretize(idx))
		}
		return Ptr{arr: arr, idx: idx}
	}
	panic(unsupported(fmt.Sprintf("IndexAddr on %T", x)))
}

func (ex *Exec) makeSlice(elemT types.Type, ln, cp *Term, lt types.Type) Value {
	ln = ex.toInt(ln, lt)
	cp = ex.toInt(cp, lt)
	// Go's own failure: negative length, cap < len, or beyond the runtime's maximum allocation
	lim := ex.ts.Const(64, 1<<47)
	bad := ex.ts.Or(ex.ts.Bin(OpSLt, ln, ex.ts.Const(64, 0)), ex.ts.Or(ex.ts.Bin(OpSLt, cp, ln), ex.ts.Bin(OpSLt, lim, cp)))
	if ex.decide(bad) {
		panic(goPanic{"makeslice: len out of range"})
	}
	// monitor: an allocation whose size is symbolic (derived from an input) must stay below 2 GiB + 64 KiB
	if ex.decide(ex.ts.Bin(OpSLt, ex.ts.Const(64, 1<<31+1<<16), cp)) {
		panic(goPanic{"allocation of more than 2 GiB on the strength of an input-derived length"})
	}
	if !cp.IsConst() {
		// bound for the explored remainder: sizes up to 8 (stated bound)
		small := ex.ts.Bin(OpSLe, cp, ex.ts.Const(64, 8))
		if !ex.feasible(small) {
			panic(pathEnd{"assume", "alloc size beyond explored bound"})
		}
		ex.assume(small)
	}
	sameLen := ln == cp
	c := ex.concretize(cp)
	if sameLen {
		ln = ex.ts.Const(64, c)
	}
	if c > 1<<24 {
		panic(goPanic{"makeslice: alloc bomb"})
	}
	arr := ex.newArray(elemT, int(c))
	return Slice{arr, ex.ts.Const(64, 0), ln, ex.ts.Const(64, c)}
}

func (ex *Exec) sliceOp(fr *frame, i *ssa.Slice) Value {
	x := ex.get(fr, i.X)
	var lo, hi, max *Term
	if i.Low != nil {
		lo = ex.toInt(ex.get(fr, i.Low).(*Term), i.Low.Type())
	}
	if i.High != nil {
		hi = ex.toInt(ex.get(fr, i.High).(*Term), i.High.Type())
	}
	if i.Max != nil {
		max = ex.toInt(ex.get(fr, i.Max).(*Term), i.Max.Type())
	}
	zero := ex.ts.Const(64, 0)
	if lo == nil {
		lo = zero
	}
	switch a := x.(type) {
	case Slice:
		if hi == nil {
			hi = a.len
		}
		if max == nil {
			max = a.cap
		}
		ok := ex.ts.And(ex.ts.Bin(OpULe, lo, hi), ex.ts.And(ex.ts.Bin(OpULe, hi, max), ex.ts.Bin(OpULe, max, a.cap)))
		if !ex.decide(ok) {
			panic(goPanic{"slice bounds out of range"})
		}
		if a.arr == nil {
			return a
		}
		return Slice{a.arr, ex.ts.Bin(OpAdd, a.off, lo), ex.ts.Bin(OpSub, hi, lo), ex.ts.Bin(OpSub, max, lo)}
	case Ptr:
		arr := a.loc.(*ArrayObj)
		n := ex.ts.Const(64, uint64(arr.n))
		if hi == nil {
			hi = n
		}
		if max == nil {
			max = n
		}
		ok := ex.ts.And(ex.ts.Bin(OpULe, lo, hi), ex.ts.And(ex.ts.Bin(OpULe, hi, max), ex.ts.Bin(OpULe, max, n)))
		if !ex.decide(ok) {
			panic(goPanic{"slice bounds out of range"})
		}
		return Slice{arr, lo, ex.ts.Bin(OpSub, hi, lo), ex.ts.Bin(OpSub, max, lo)}
	case Str:
		n := ex.ts.Const(64, uint64(len(a.b)))
		if hi == nil {
			hi = n
		}
		ok := ex.ts.And(ex.ts.Bin(OpULe, lo, hi), ex.ts.Bin(OpULe, hi, n))
		if !ex.decide(ok) {
			panic(goPanic{"slice bounds out of range"})
		}
		l, h := ex.concretize(lo), ex.concretize(hi)
		return Str{a.b[l:h]}
	}
	panic(unsupported(fmt.Sprintf("Slice on %T", x)))
}

func (ex *Exec) strIndex(s Str, idx *Term) *Term {
	if idx.IsConst() {
		return s.b[idx.val]
	}
	res := s.b[len(s.b)-1]
	for i := len(s.b) - 2; i >= 0; i-- {
		res = ex.ts.Ite(ex.ts.Eq(idx, ex.ts.Const(64, uint64(i))), s.b[i], res)
	}
	return res
}

func (ex *Exec) unop(fr *frame, i *ssa.UnOp) Value {
	x := ex.get(fr, i.X)
	switch i.Op {
	case token.MUL:
		return ex.load(x, i.Type())
	case token.NOT:
		return ex.ts.Not(x.(*Term))
	case token.SUB:
		return ex.ts.Neg(x.(*Term))
	case token.XOR:
		return ex.ts.BNot(x.(*Term))
	case token.ARROW:
		ch := x.(*Chan)
		v, ok := ex.chanRecv(ch)
		if i.CommaOk {
			return Tuple{v, ex.ts.Bool(ok)}
		}
		return v
	}
	panic(unsupported("unop " + i.Op.String()))
}

func (ex *Exec) slicesEqual(a, b Str) *Term {
	if len(a.b) != len(b.b) {
		return ex.ts.F
	}
	r := ex.ts.T
	for k := range a.b {
		r = ex.ts.And(r, ex.ts.Eq(a.b[k], b.b[k]))
	}
	return r
}

func (ex *Exec) ptrEq(a, b Value) *Term {
	switch x := a.(type) {
	case Ptr:
		switch y := b.(type) {
		case *FileObj:
			return ex.ts.Bool(x.isNil() && y == nil)
		case *TimerObj:
			return ex.ts.Bool(x.isNil() && y == nil)
		case *cmdState:
			return ex.ts.Bool(x.isNil() && y == nil)
		case Ptr:
			if x.arr != nil || y.arr != nil {
				if x.arr != y.arr || x.arr == nil || y.arr == nil {
					return ex.ts.F
				}
				return ex.ts.Eq(x.idx, y.idx)
			}
			return ex.ts.Bool(x.loc == y.loc)
		case GPtr:
			return ex.ptrEq(b, a)
		}
	case GPtr:
		r := ex.ts.F
		for _, al := range x.alts {
			r = ex.ts.Or(r, ex.ts.And(al.c, ex.ptrEq(al.p, b)))
		}
		return r
	}
	panic(unsupported(fmt.Sprintf("ptrEq %T %T", a, b)))
}

func (ex *Exec) valueEq(x, y Value) *Term {
	if x == nil {
		x = Ptr{}
	}
	if y == nil {
		y = Ptr{}
	}
	switch a := x.(type) {
	case *Term:
		return ex.ts.Eq(a, y.(*Term))
	case Str:
		return ex.slicesEqual(a, y.(Str))
	case Ptr, GPtr:
		return ex.ptrEq(x, y)
	case Slice:
		b := y.(Slice)
		if a.arr == nil || b.arr == nil {
			return ex.ts.Bool(a.arr == nil && b.arr == nil)
		}
		panic(unsupported("slice comparison"))
	case Iface:
		b := y.(Iface)
		if a.t == nil || b.t == nil {
			return ex.ts.Bool(a.t == nil && b.t == nil)
		}
		if !types.Identical(a.t, b.t) {
			return ex.ts.F
		}
		return ex.valueEq(a.v, b.v)
	case *Chan:
		return ex.ts.Bool(a == y.(*Chan))
	case *MapObj:
		return ex.ts.Bool(a == y.(*MapObj))
	case *Opaque:
		return ex.ts.Bool(x == y)
	case *FileObj:
		if p, ok := y.(Ptr); ok {
			return ex.ts.Bool(p.isNil() && a == nil)
		}
		return ex.ts.Bool(x == y)
	case *TimerObj:
		if p, ok := y.(Ptr); ok {
			return ex.ts.Bool(p.isNil() && a == nil)
		}
		return ex.ts.Bool(x == y)
	case *cmdState:
		if p, ok := y.(Ptr); ok {
			return ex.ts.Bool(p.isNil() && a == nil)
		}
		return ex.ts.Bool(x == y)
	case Closure:
		b := y.(Closure)
		if a.fn == nil || b.fn == nil {
			return ex.ts.Bool(a.fn == nil && b.fn == nil)
		}
	}
	panic(unsupported(fmt.Sprintf("valueEq %T %T", x, y)))
}

func (ex *Exec) binop(op token.Token, x, y Value, t types.Type) Value {
	if op == token.EQL || op == token.NEQ {
		_, xf := x.(FVal)
		_, yf := y.(FVal)
		if xf || yf {
			ex.stubsUsed["float:comparison free"]++
			return ex.nondet(BoolSort)
		}
	}
	switch op {
	case token.EQL:
		return ex.valueEq(x, y)
	case token.NEQ:
		return ex.ts.Not(ex.valueEq(x, y))
	}
	if _, ok := x.(Rope); ok && op == token.ADD {
		return ex.ropeCat(ex.toRope(x), ex.toRope(y))
	}
	if _, ok := y.(Rope); ok && op == token.ADD {
		return ex.ropeCat(ex.toRope(x), ex.toRope(y))
	}
	_, xf := x.(FVal)
	_, yf := y.(FVal)
	if xf || yf {
		switch op {
		case token.LSS, token.GTR, token.LEQ, token.GEQ:
			ex.stubsUsed["float:comparison free"]++
			return ex.nondet(BoolSort)
		}
		return FVal{op.String(), []Value{x, y}}
	}
	if sx, ok := x.(Str); ok {
		sy := y.(Str)
		switch op {
		case token.ADD:
			return Str{append(append([]*Term{}, sx.b...), sy.b...)}
		}
		panic(unsupported("string binop " + op.String()))
	}
	a, b := x.(*Term), y.(*Term)
	signed := isSigned(t)
	if a.sort == BoolSort {
		panic(unsupported("bool binop " + op.String()))
	}
	switch op {
	case token.ADD:
		return ex.ts.Bin(OpAdd, a, b)
	case token.SUB:
		return ex.ts.Bin(OpSub, a, b)
	case token.MUL:
		return ex.ts.Bin(OpMul, a, b)
	case token.QUO, token.REM:
		if ex.decide(ex.ts.Eq(b, ex.ts.Const(b.sort, 0))) {
			panic(goPanic{"integer divide by zero"})
		}
		if op == token.QUO {
			if signed {
				return ex.ts.Bin(OpSDiv, a, b)
			}
			return ex.ts.Bin(OpUDiv, a, b)
		}
		if signed {
			return ex.ts.Bin(OpSRem, a, b)
		}
		return ex.ts.Bin(OpURem, a, b)
	case token.AND:
		return ex.ts.Bin(OpBAnd, a, b)
	case token.OR:
		return ex.ts.Bin(OpBOr, a, b)
	case token.XOR:
		return ex.ts.Bin(OpBXor, a, b)
	case token.AND_NOT:
		return ex.ts.Bin(OpBAnd, a, ex.ts.BNot(b))
	case token.SHL, token.SHR:
		// shift count may have different width
		if b.sort != a.sort {
			if b.sort < a.sort {
				b = ex.ts.ZExt(b, a.sort)
			} else {
				// saturate
				big := ex.ts.Bin(OpULe, ex.ts.Const(b.sort, uint64(a.sort)), b)
				b = ex.ts.Ite(big, ex.ts.Const(a.sort, uint64(a.sort)), ex.ts.Extract(b, int(a.sort)-1, 0))
			}
		}
		if op == token.SHL {
			return ex.ts.Bin(OpShl, a, b)
		}
		if signed {
			return ex.ts.Bin(OpAShr, a, b)
		}
		return ex.ts.Bin(OpLShr, a, b)
	case token.LSS:
		if signed {
			return ex.ts.Bin(OpSLt, a, b)
		}
		return ex.ts.Bin(OpULt, a, b)
	case token.LEQ:
		if signed {
			return ex.ts.Bin(OpSLe, a, b)
		}
		return ex.ts.Bin(OpULe, a, b)
	case token.GTR:
		if signed {
			return ex.ts.Bin(OpSLt, b, a)
		}
		return ex.ts.Bin(OpULt, b, a)
	case token.GEQ:
		if signed {
			return ex.ts.Bin(OpSLe, b, a)
		}
		return ex.ts.Bin(OpULe, b, a)
	}
	panic(unsupported("binop " + op.String()))
}

func isFloat(t types.Type) bool {
	b, ok := t.Underlying().(*types.Basic)
	return ok && b.Info()&types.IsFloat != 0
}

func (ex *Exec) convert(v Value, from, to types.Type) Value {
	if isFloat(to) && sortOf(from) > 0 {
		t := v.(*Term)
		if isSigned(from) {
			t = ex.ts.SExt(t, 64)
		} else {
			t = ex.ts.ZExt(t, 64)
		}
		return FVal{"fromint", []Value{t}}
	}
	if isFloat(from) && sortOf(to) > 0 {
		return ex.ts.Extract(ex.floatToInt(v.(FVal)), int(sortOf(to))-1, 0)
	}
	if sl, ok := to.Underlying().(*types.Slice); ok {
		if b, ok := sl.Elem().Underlying().(*types.Basic); ok && b.Kind() == types.Int32 {
			r := ex.toRope(v)
			var runes []Value
			for _, s := range r.segs {
				if s.opaque {
					if s.rn == nil {
						if s.ln != s.wd {
							panic(unsupported("[]rune of opaque non-ASCII segment"))
						}
						// an ASCII segment of symbolic length (a %d rendering): case-split its length, one width-1 rune per byte
						n := int(ex.concretize(s.ln))
						one := ex.ts.Const(64, 1)
						for k := 0; k < n; k++ {
							rn := ex.nondet(32)
							ex.side[rn] = Seg{opaque: true, ln: one, wd: one, rn: rn}
							runes = append(runes, rn)
						}
						continue
					}
					runes = append(runes, s.rn)
				} else {
					for _, bt := range s.b {
						if !bt.IsConst() || bt.val >= 0x80 {
							panic(unsupported("[]rune of symbolic/non-ASCII bytes"))
						}
						runes = append(runes, ex.ts.Const(32, bt.val))
					}
				}
			}
			arr := ex.newArray(sl.Elem(), len(runes))
			copy(arr.vals, runes)
			n := ex.ts.Const(64, uint64(len(runes)))
			return Slice{arr, ex.ts.Const(64, 0), n, n}
		}
	}
	fs, tsrt := sortOf(from), sortOf(to)
	if fs > 0 && tsrt > 0 {
		t := v.(*Term)
		if tsrt <= fs {
			return ex.ts.Extract(t, int(tsrt)-1, 0)
		}
		if isSigned(from) {
			return ex.ts.SExt(t, tsrt)
		}
		return ex.ts.ZExt(t, tsrt)
	}
	// string <-> []byte
	if _, ok := to.Underlying().(*types.Slice); ok {
		if r, ok := v.(Rope); ok {
			var bs []*Term
			for _, sg := range r.segs {
				if sg.opaque {
					switch {
					case sg.num != nil:
						bs = append(bs, ex.numToken(sg.num).b...) // travels as a 16-letter token; ParseInt gives the term back
					case sg.rn == nil && sg.ln == sg.wd:
						n := int(ex.concretize(sg.ln))
						for k := 0; k < n; k++ {
							c := ex.nondet(8)
							ex.assume(ex.ts.And(ex.ts.Bin(OpULe, ex.ts.Const(8, 0x20), c), ex.ts.Bin(OpULe, c, ex.ts.Const(8, 0x7e))))
							bs = append(bs, c)
						}
					default:
						panic(unsupported("[]byte of a rope with abstract runes"))
					}
					continue
				}
				bs = append(bs, sg.b...)
			}
			v = Str{bs}
		}
		if s, ok := v.(Str); ok {
			arr := ex.newArray(types.Typ[types.Byte], len(s.b))
			for i, b := range s.b {
				arr.vals[i] = b
			}
			n := ex.ts.Const(64, uint64(len(s.b)))
			return Slice{arr, ex.ts.Const(64, 0), n, n}
		}
	}
	if b, ok := to.Underlying().(*types.Basic); ok && b.Info()&types.IsString != 0 {
		if t, ok := v.(*Term); ok && sortOf(from) > 0 {
			// string(rune): UTF-8 encoding of a code point
			if !t.IsConst() {
				panic(unsupported("string(rune) of a symbolic value"))
			}
			return ex.strConst(string(rune(int32(t.val))))
		}
		if s, ok := v.(Slice); ok {
			return ex.sliceToStr(s)
		}
		if _, ok := v.(Str); ok {
			return v
		}
	}
	if _, ok := to.Underlying().(*types.Pointer); ok {
		return v
	}
	if b, ok := to.Underlying().(*types.Basic); ok && b.Kind() == types.UnsafePointer {
		return v
	}
	panic(unsupported(fmt.Sprintf("convert %s -> %s", from, to)))
}

func (ex *Exec) sliceToStr(s Slice) Str {
	n := int(ex.concretize(s.len))
	out := make([]*Term, n)
	for i := 0; i < n; i++ {
		out[i] = ex.loadElem(s.arr, ex.ts.Bin(OpAdd, s.off, ex.ts.Const(64, uint64(i)))).(*Term)
	}
	return Str{out}
}

func (ex *Exec) prepareCall(fr *frame, c *ssa.CallCommon) (Value, []Value) {
	var args []Value
	if c.IsInvoke() {
		recv := ex.get(fr, c.Value).(Iface)
		if recv.t == nil {
			panic(goPanic{"nil interface method call " + c.Method.Name()})
		}
		if op, ok := recv.v.(*Opaque); ok && c.Method.Name() == "Error" {
			return Native{"error.Error", func(ex *Exec, a []Value) Value { return ex.strConst("<" + op.name + ">") }}, nil
		}
		if ws, ok := recv.v.(*WriterStub); ok {
			mname := c.Method.Name()
			for _, a := range c.Args {
				args = append(args, ex.get(fr, a))
			}
			return Native{"pipe." + mname, func(ex *Exec, a []Value) Value {
				cs, _ := ex.side["cmd"].(*cmdState)
				switch mname {
				case "Write":
					return Tuple{a[0].(Slice).len, Iface{}}
				case "Read":
					_ = ws
					ex.wait(func() bool { return cs == nil || cs.exited || cs.outClosed || len(cs.out) > 0 }, "helper silent")
					if cs != nil && len(cs.out) > 0 {
						b := cs.out[0]
						cs.out = cs.out[1:]
						dst := a[0].(Slice)
						for i := range b {
							ex.storeElem(dst.arr, ex.ts.Bin(OpAdd, dst.off, ex.ts.Const(64, uint64(i))), b[i])
						}
						return Tuple{ex.ts.Const(64, uint64(len(b))), Iface{}}
					}
					return Tuple{ex.ts.Const(64, 0), ex.ioEOF()}
				case "Close":
					return Iface{}
				}
				panic(unsupported("pipe." + mname))
			}}, args
		}
		if ho, ok := recv.v.(*HashObj); ok {
			mname := c.Method.Name()
			for _, a := range c.Args {
				args = append(args, ex.get(fr, a))
			}
			return Native{"md5." + mname, func(ex *Exec, a []Value) Value { return ex.hashMethod(ho, mname, a) }}, args
		}
		if co, ok := recv.v.(*CoderObj); ok {
			mname := c.Method.Name()
			for _, a := range c.Args {
				args = append(args, ex.get(fr, a))
			}
			return Native{"coder." + mname, func(ex *Exec, a []Value) Value { return ex.coderMethod(co, mname, a) }}, args
		}
		if fi, ok := recv.v.(*FileInfoObj); ok {
			mname := c.Method.Name()
			return Native{"fileinfo." + mname, func(ex *Exec, a []Value) Value {
				switch mname {
				case "IsDir":
					return ex.ts.Bool(fi.node.isDir)
				case "Size":
					return ex.ts.Const(64, uint64(len(fi.node.content)))
				case "Mode":
					if fi.node.isDir {
						return ex.ts.Const(32, 0x80000000|0o755)
					}
					return ex.ts.Const(32, 0o644)
				case "Name":
					k := fi.node.key
					st := 0
					for i, t := range k {
						if t.IsConst() && t.val == '/' {
							st = i + 1
						}
					}
					return Str{k[st:]}
				}
				panic(unsupported("FileInfo." + mname))
			}}, nil
		}
		if co, ok := recv.v.(*CtxObj); ok {
			mname := c.Method.Name()
			for _, a := range c.Args {
				args = append(args, ex.get(fr, a))
			}
			return Native{"ctx." + mname, func(ex *Exec, a []Value) Value { return ex.ctxMethod(co, mname, a) }}, args
		}
		fn := ex.prog.LookupMethod(recv.t, c.Method.Pkg(), c.Method.Name())
		if fn == nil {
			panic(unsupported("method lookup failed " + recv.t.String() + "." + c.Method.Name()))
		}
		args = append(args, recv.v)
		for _, a := range c.Args {
			args = append(args, ex.get(fr, a))
		}
		return Closure{fn: fn}, args
	}
	fnv := ex.get(fr, c.Value)
	for _, a := range c.Args {
		args = append(args, ex.get(fr, a))
	}
	return fnv, args
}

func (ex *Exec) doCall(fr *frame, c *ssa.CallCommon, site ssa.Instruction) Value {
	fnv, args := ex.prepareCall(fr, c)
	switch f := fnv.(type) {
	case *ssa.Builtin:
		return ex.builtin(f, args, c)
	case Closure:
		return ex.call(f, args, site)
	case Native:
		return f.f(ex, args)
	}
	panic(unsupported(fmt.Sprintf("call of %T", fnv)))
}

func (ex *Exec) typeAssert(fr *frame, i *ssa.TypeAssert) Value {
	x := ex.get(fr, i.X).(Iface)
	ok := false
	var res Value
	if x.t != nil {
		if types.IsInterface(i.AssertedType) {
			ok = types.Implements(x.t, i.AssertedType.Underlying().(*types.Interface))
			res = x
		} else {
			ok = types.Identical(x.t, i.AssertedType)
			res = x.v
		}
	}
	if !ok {
		if i.CommaOk {
			return Tuple{ex.zero(i.AssertedType), ex.ts.F}
		}
		panic(goPanic{"interface conversion failed"})
	}
	if i.CommaOk {
		return Tuple{res, ex.ts.T}
	}
	return res
}

// ---- channels

func (ex *Exec) chanSend(ch *Chan, v Value) {
	if ch == nil {
		ex.wait(func() bool { return false }, "send on nil channel")
	}
	ex.syncPoint("chan send")
	ex.wait(func() bool { return ch.closed || len(ch.q) < ch.cap || (ch.cap == 0 && ch.recvWaiting > 0 && len(ch.q) == 0) }, "chan send")
	if ch.closed {
		panic(goPanic{"send on closed channel"})
	}
	ch.q = append(ch.q, v)
	if ch.cap == 0 {
		// rendezvous: wait until taken
		ex.wait(func() bool { return len(ch.q) == 0 || ch.closed }, "chan send (rendezvous)")
	}
}

func (ex *Exec) chanRecv(ch *Chan) (Value, bool) {
	if ch == nil {
		ex.wait(func() bool { return false }, "recv on nil channel")
	}
	ex.syncPoint("chan recv")
	ch.recvWaiting++
	ex.wait(func() bool { return len(ch.q) > 0 || ch.closed }, "chan recv")
	ch.recvWaiting--
	if len(ch.q) > 0 {
		v := ch.q[0]
		ch.q = ch.q[1:]
		return v, true
	}
	return ex.zero(ch.elemT), false
}

func (ex *Exec) selectReady(fr *frame, i *ssa.Select) int {
	for k, st := range i.States {
		ch, _ := ex.get(fr, st.Chan).(*Chan)
		if ch == nil {
			continue
		}
		if st.Dir == types.RecvOnly {
			if len(ch.q) > 0 || ch.closed {
				return k
			}
		} else if ch.closed || len(ch.q) < ch.cap || (ch.cap == 0 && ch.recvWaiting > 0) {
			return k
		}
	}
	return -1
}

func (ex *Exec) selectOp(fr *frame, i *ssa.Select) Value {
	nrecv := 0
	for _, st := range i.States {
		if st.Dir == types.RecvOnly {
			nrecv++
		}
	}
	res := make(Tuple, 2+nrecv)
	res[1] = ex.ts.F
	ri := 0
	for _, st := range i.States {
		if st.Dir == types.RecvOnly {
			res[2+ri] = ex.zero(st.Chan.Type().Underlying().(*types.Chan).Elem())
			ri++
		}
	}
	k := ex.selectReady(fr, i)
	if k < 0 {
		if !i.Blocking {
			res[0] = ex.ts.Const(64, ^uint64(0))
			return res
		}
		for _, st := range i.States {
			if ch, _ := ex.get(fr, st.Chan).(*Chan); ch != nil && st.Dir == types.RecvOnly {
				ch.recvWaiting++
			}
		}
		ex.wait(func() bool { return ex.selectReady(fr, i) >= 0 }, "select")
		for _, st := range i.States {
			if ch, _ := ex.get(fr, st.Chan).(*Chan); ch != nil && st.Dir == types.RecvOnly {
				ch.recvWaiting--
			}
		}
		k = ex.selectReady(fr, i)
	}
	st := i.States[k]
	ch := ex.get(fr, st.Chan).(*Chan)
	res[0] = ex.ts.Const(64, uint64(k))
	if st.Dir == types.RecvOnly {
		ri = 0
		for j := 0; j < k; j++ {
			if i.States[j].Dir == types.RecvOnly {
				ri++
			}
		}
		v, ok := ex.chanRecv(ch)
		res[1] = ex.ts.Bool(ok)
		res[2+ri] = v
	} else {
		ex.chanSend(ch, ex.get(fr, st.Send))
	}
	return res
}

// ---- builtins

func (ex *Exec) builtin(b *ssa.Builtin, args []Value, c *ssa.CallCommon) Value {
	switch b.Name() {
	case "len":
		switch a := args[0].(type) {
		case Slice:
			return a.len
		case Str:
			return ex.ts.Const(64, uint64(len(a.b)))
		case Rope:
			return ex.ropeLen(a)
		case *Chan:
			return ex.ts.Const(64, uint64(len(a.q)))
		case *MapObj:
			if a == nil {
				return ex.ts.Const(64, 0)
			}
			return ex.ts.Const(64, uint64(len(a.ents)))
		case *ArrayObj:
			return ex.ts.Const(64, uint64(a.n))
		case Ptr:
			return ex.ts.Const(64, uint64(a.loc.(*ArrayObj).n))
		}
	case "cap":
		switch a := args[0].(type) {
		case Slice:
			return a.cap
		case *Chan:
			return ex.ts.Const(64, uint64(a.cap))
		}
	case "copy":
		dst := args[0].(Slice)
		var srcLen *Term
		var srcAt func(i int) Value
		switch s := args[1].(type) {
		case Slice:
			srcLen = s.len
			srcAt = func(i int) Value {
				return ex.loadElem(s.arr, ex.ts.Bin(OpAdd, s.off, ex.ts.Const(64, uint64(i))))
			}
		case Str:
			srcLen = ex.ts.Const(64, uint64(len(s.b)))
			srcAt = func(i int) Value { return s.b[i] }
		}
		n := ex.ts.Ite(ex.ts.Bin(OpULt, dst.len, srcLen), dst.len, srcLen)
		cn := int(ex.concretize(n))
		tmp := make([]Value, cn)
		for i := 0; i < cn; i++ {
			tmp[i] = srcAt(i)
		}
		for i := 0; i < cn; i++ {
			ex.storeElem(dst.arr, ex.ts.Bin(OpAdd, dst.off, ex.ts.Const(64, uint64(i))), tmp[i])
		}
		return ex.ts.Const(64, uint64(cn))
	case "append":
		s := args[0].(Slice)
		var add []Value
		switch a := args[1].(type) {
		case Slice:
			n := int(ex.concretize(a.len))
			for i := 0; i < n; i++ {
				add = append(add, ex.loadElem(a.arr, ex.ts.Bin(OpAdd, a.off, ex.ts.Const(64, uint64(i)))))
			}
		case Str:
			for _, b := range a.b {
				add = append(add, b)
			}
		}
		if len(add) == 0 {
			return s
		}
		ln := int(ex.concretize(s.len))
		cp := int(ex.concretize(s.cap))
		elemT := c.Args[0].Type().Underlying().(*types.Slice).Elem()
		if ln+len(add) <= cp && s.arr != nil {
			off := int(ex.concretize(s.off))
			for i, v := range add {
				ex.storeElem(s.arr, ex.ts.Const(64, uint64(off+ln+i)), v)
			}
			return Slice{s.arr, s.off, ex.ts.Const(64, uint64(ln+len(add))), s.cap}
		}
		ncap := 2 * cp
		if ncap < ln+len(add) {
			ncap = ln + len(add)
		}
		arr := ex.newArray(elemT, ncap)
		for i := 0; i < ln; i++ {
			ex.storeElem(arr, ex.ts.Const(64, uint64(i)), ex.loadElem(s.arr, ex.ts.Bin(OpAdd, s.off, ex.ts.Const(64, uint64(i)))))
		}
		for i, v := range add {
			ex.storeElem(arr, ex.ts.Const(64, uint64(ln+i)), v)
		}
		return Slice{arr, ex.ts.Const(64, 0), ex.ts.Const(64, uint64(ln+len(add))), ex.ts.Const(64, uint64(ncap))}
	case "close":
		ch := args[0].(*Chan)
		if ch == nil || ch.closed {
			panic(goPanic{"close of nil/closed channel"})
		}
		ch.closed = true
		return nil
	case "recover":
		if n := len(ex.curPanicFrame); n > 0 {
			fr := ex.curPanicFrame[n-1]
			if fr.panicking != nil {
				msg := fr.panicking.msg
				fr.panicking = nil
				return Iface{t: types.Typ[types.String], v: ex.strConst(msg)}
			}
		}
		return Iface{}
	}
	where := ""
	if th := ex.sch.cur; th != nil && len(th.stack) > 0 {
		where = " in " + th.stack[len(th.stack)-1].String()
	}
	panic(unsupported("builtin " + b.Name() + where))
}

// isPureScalar reports whether fn is a loop-free function over scalars with no effects
// (only BinOp/UnOp(non-deref)/Convert/Phi/If/Jump/Return) so that it can be summarised as one term.
func (ex *Exec) isPureScalar(fn *ssa.Function) bool {
	if v, ok := ex.pureCache[fn]; ok {
		return v
	}
	ok := len(fn.FreeVars) == 0 && fn.Signature.Results().Len() == 1 && sortOf(fn.Signature.Results().At(0).Type()) >= 0
	for _, p := range fn.Params {
		if sortOf(p.Type()) < 0 {
			ok = false
		}
	}
	if ok {
	outer:
		for _, b := range fn.Blocks {
			for _, s := range b.Succs {
				if s.Index <= b.Index && false {
					ok = false
				}
			}
			for _, in := range b.Instrs {
				switch i := in.(type) {
				case *ssa.BinOp:
					if i.Op == token.QUO || i.Op == token.REM {
						ok = false
						break outer
					}
				case *ssa.UnOp:
					if i.Op == token.MUL || i.Op == token.ARROW {
						ok = false
						break outer
					}
				case *ssa.Convert, *ssa.Phi, *ssa.If, *ssa.Jump, *ssa.Return, *ssa.DebugRef:
				default:
					ok = false
					break outer
				}
			}
		}
	}
	if ok {
		// reject loops: DFS for back edges
		state := map[*ssa.BasicBlock]int{}
		var dfs func(b *ssa.BasicBlock) bool
		dfs = func(b *ssa.BasicBlock) bool {
			state[b] = 1
			for _, s := range b.Succs {
				if state[s] == 1 {
					return false
				}
				if state[s] == 0 && !dfs(s) {
					return false
				}
			}
			state[b] = 2
			return true
		}
		ok = dfs(fn.Blocks[0])
	}
	ex.pureCache[fn] = ok
	return ok
}

// evalMerged evaluates a pure loop-free function, merging both sides of symbolic branches with ite.
func (ex *Exec) evalMerged(fr *frame, b, prev *ssa.BasicBlock) Value {
	for _, in := range b.Instrs {
		ex.steps++
		switch i := in.(type) {
		case *ssa.Phi:
			for k, p := range b.Preds {
				if p == prev {
					fr.env[i] = ex.get(fr, i.Edges[k])
				}
			}
		case *ssa.BinOp:
			bx, by := ex.get(fr, i.X), ex.get(fr, i.Y)
		if _, isStr := bx.(Str); isStr {
			switch by.(type) {
			case Str, Rope:
			default:
				panic(unsupported(fmt.Sprintf("string %s %T at %s", i.Op, by, ex.prog.Fset.Position(i.Pos()))))
			}
		}
		fr.env[i] = ex.binop(i.Op, bx, by, i.X.Type())
		case *ssa.UnOp:
			fr.env[i] = ex.unop(fr, i)
		case *ssa.Convert:
			fr.env[i] = ex.convert(ex.get(fr, i.X), i.X.Type(), i.Type())
		case *ssa.Jump:
			return ex.evalMerged(fr, b.Succs[0], b)
		case *ssa.Return:
			return ex.get(fr, i.Results[0])
		case *ssa.If:
			c := ex.get(fr, i.Cond).(*Term)
			if c.IsConst() {
				if c.IsTrue() {
					return ex.evalMerged(fr, b.Succs[0], b)
				}
				return ex.evalMerged(fr, b.Succs[1], b)
			}
			// copy env for each side (phi assignments are per-path)
			save := fr.env
			fr.env = map[ssa.Value]Value{}
			for k, v := range save {
				fr.env[k] = v
			}
			a := ex.evalMerged(fr, b.Succs[0], b).(*Term)
			fr.env = map[ssa.Value]Value{}
			for k, v := range save {
				fr.env[k] = v
			}
			bb := ex.evalMerged(fr, b.Succs[1], b).(*Term)
			fr.env = save
			return ex.ts.Ite(c, a, bb)
		}
	}
	panic("evalMerged fell through")
}

func (ex *Exec) lookup(fr *frame, i *ssa.Lookup) Value {
	x := ex.get(fr, i.X)
	switch m := x.(type) {
	case *MapObj:
		k := ex.get(fr, i.Index)
		var elemT types.Type = i.Type()
		if i.CommaOk {
			elemT = i.Type().(*types.Tuple).At(0).Type()
		}
		if m != nil {
			for _, e := range m.ents {
				if ex.decide(ex.valueEq(e.k, k)) {
					if i.CommaOk {
						return Tuple{e.v, ex.ts.T}
					}
					return e.v
				}
			}
		}
		if i.CommaOk {
			return Tuple{ex.zero(elemT), ex.ts.F}
		}
		return ex.zero(elemT)
	case Str:
		idx := ex.toInt(ex.get(fr, i.Index).(*Term), i.Index.Type())
		ex.boundsCheck(idx, ex.ts.Const(64, uint64(len(m.b))), "string index")
		return ex.strIndex(m, idx)
	}
	panic(unsupported(fmt.Sprintf("Lookup on %T", x)))
}

// mergeable: element types whose values can be combined with ite (scalars and pointers).
func mergeable(t types.Type) bool {
	if sortOf(t) >= 0 {
		return true
	}
	_, ok := t.Underlying().(*types.Pointer)
	return ok
}


// rangeIter is the iterator of a `for range` over a string or a map.
type rangeIter struct {
	x   Value
	pos int
}

func (ex *Exec) rangeNext(it *rangeIter, isString bool) Value {
	if isString {
		var bs []*Term
		switch x := it.x.(type) {
		case Str:
			bs = x.b
		case Rope:
			bs = ex.pathTerms(x)
		default:
			panic(unsupported(fmt.Sprintf("range over %T", it.x)))
		}
		if it.pos >= len(bs) {
			return Tuple{ex.ts.F, ex.ts.Const(64, 0), ex.ts.Const(32, 0)}
		}
		start := it.pos
		b0 := bs[start]
		if !b0.IsConst() {
			// a symbolic byte: an ASCII character or (as in Go) an invalid byte decoding to U+FFFD, both one byte wide
			it.pos++
			r := ex.ts.Ite(ex.ts.Bin(OpULt, b0, ex.ts.Const(8, 0x80)), ex.ts.ZExt(b0, 32), ex.ts.Const(32, 0xFFFD))
			return Tuple{ex.ts.T, ex.ts.Const(64, uint64(start)), r}
		}
		c := byte(b0.val)
		need, r := 0, rune(c)
		switch {
		case c < 0x80:
		case c&0xE0 == 0xC0:
			need, r = 1, rune(c&0x1F)
		case c&0xF0 == 0xE0:
			need, r = 2, rune(c&0x0F)
		case c&0xF8 == 0xF0:
			need, r = 3, rune(c&0x07)
		default:
			r = 0xFFFD
		}
		okSeq := start+need < len(bs)+0 && need > 0
		if need > 0 {
			for k := 1; k <= need; k++ {
				if start+k >= len(bs) || !bs[start+k].IsConst() || byte(bs[start+k].val)&0xC0 != 0x80 {
					okSeq = false
					break
				}
				r = r<<6 | rune(byte(bs[start+k].val)&0x3F)
			}
			if !okSeq {
				r, need = 0xFFFD, 0
			}
		}
		it.pos = start + 1 + need
		return Tuple{ex.ts.T, ex.ts.Const(64, uint64(start)), ex.ts.Const(32, uint64(r))}
	}
	m, ok := it.x.(*MapObj)
	if !ok {
		panic(unsupported(fmt.Sprintf("range over %T", it.x)))
	}
	if m == nil || it.pos >= len(m.ents) {
		var kz, vz Value = ex.ts.Const(64, 0), ex.ts.Const(64, 0)
		if m != nil {
			kz, vz = ex.zero(m.keyT), ex.zero(m.elemT)
		}
		return Tuple{ex.ts.F, kz, vz}
	}
	e := m.ents[it.pos]
	it.pos++
	return Tuple{ex.ts.T, e.k, e.v}
}
