package main

import (
	"fmt"
	"go/types"

	"golang.org/x/tools/go/ssa"
)

// matchAt returns the term "needle occurs in hay at position s".
func (ex *Exec) matchAt(hay, needle []*Term, s int) *Term {
	if s < 0 || s+len(needle) > len(hay) {
		return ex.ts.F
	}
	m := ex.ts.T
	for k := range needle {
		m = ex.ts.And(m, ex.ts.Eq(hay[s+k], needle[k]))
	}
	return m
}

func (ex *Exec) bytesOf(v Value) []*Term {
	switch x := v.(type) {
	case Slice:
		if x.arr == nil {
			return nil
		}
		return ex.sliceBytes(x)
	case Str:
		return x.b
	case Rope:
		return ex.pathTerms(x)
	}
	panic(unsupported(fmt.Sprintf("bytesOf %T", v)))
}

func (ex *Exec) mkByteSlice(b []*Term) Slice {
	arr := ex.newArray(types.Typ[types.Byte], len(b))
	for i, t := range b {
		arr.vals[i] = t
	}
	n := ex.ts.Const(64, uint64(len(b)))
	return Slice{arr, ex.ts.Const(64, 0), n, n}
}

// parseDigits models strconv parsing of an unsigned decimal string with concrete length.
// returns value (64-bit) and ok.
func (ex *Exec) parseDigits(b []*Term, maxBits uint) (*Term, *Term) {
	if len(b) == 0 {
		return ex.ts.Const(64, 0), ex.ts.F
	}
	if len(b) > 18 {
		panic(unsupported("parseDigits: too long"))
	}
	ok := ex.ts.T
	val := ex.ts.Const(64, 0)
	for _, d := range b {
		isd := ex.ts.And(ex.ts.Bin(OpULe, ex.ts.Const(8, '0'), d), ex.ts.Bin(OpULe, d, ex.ts.Const(8, '9')))
		ok = ex.ts.And(ok, isd)
		dv := ex.ts.ZExt(ex.ts.Bin(OpSub, d, ex.ts.Const(8, '0')), 64)
		val = ex.ts.Bin(OpAdd, ex.ts.Bin(OpMul, val, ex.ts.Const(64, 10)), dv)
	}
	if maxBits < 64 {
		ok = ex.ts.And(ok, ex.ts.Bin(OpULt, val, ex.ts.Const(64, uint64(1)<<maxBits)))
	}
	return val, ok
}

func (ex *Exec) errValue(msg string) Value {
	return Iface{t: types.Universe.Lookup("error").Type(), v: ex.opaque("err:" + msg)}
}

func (ex *Exec) strIntrinsic(fn *ssa.Function, name string, args []Value) (Value, bool) {
	switch name {
	case "bytes.LastIndex", "bytes.Index", "strings.Index", "strings.LastIndex":
		hay, nd := ex.bytesOf(args[0]), ex.bytesOf(args[1])
		res := ex.ts.Const(64, ^uint64(0))
		if name == "bytes.LastIndex" || name == "strings.LastIndex" {
			for s := 0; s+len(nd) <= len(hay); s++ {
				res = ex.ts.Ite(ex.matchAt(hay, nd, s), ex.ts.Const(64, uint64(s)), res)
			}
		} else {
			for s := len(hay) - len(nd); s >= 0; s-- {
				res = ex.ts.Ite(ex.matchAt(hay, nd, s), ex.ts.Const(64, uint64(s)), res)
			}
		}
		return ex.ts.Const(64, ex.concretize(res)), true
	case "bytes.Equal":
		return ex.slicesEqual(Str{ex.bytesOf(args[0])}, Str{ex.bytesOf(args[1])}), true
	case "bytes.Compare", "strings.Compare":
		a, b := ex.bytesOf(args[0]), ex.bytesOf(args[1])
		// lexicographic comparison as one term: -1 / 0 / +1
		n := len(a)
		if len(b) < n {
			n = len(b)
		}
		tail := ex.ts.Const(64, 0)
		if len(a) < len(b) {
			tail = ex.ts.Const(64, ^uint64(0))
		} else if len(a) > len(b) {
			tail = ex.ts.Const(64, 1)
		}
		res := tail
		for i := n - 1; i >= 0; i-- {
			lt := ex.ts.Bin(OpULt, a[i], b[i])
			gt := ex.ts.Bin(OpULt, b[i], a[i])
			res = ex.ts.Ite(lt, ex.ts.Const(64, ^uint64(0)), ex.ts.Ite(gt, ex.ts.Const(64, 1), res))
		}
		return res, true
	case "bytes.IndexAny", "strings.IndexAny":
		hay, set := ex.bytesOf(args[0]), ex.bytesOf(args[1])
		for _, c := range set {
			if !c.IsConst() || c.val >= 0x80 {
				panic(unsupported("IndexAny with a symbolic or non-ASCII set"))
			}
		}
		res := ex.ts.Const(64, ^uint64(0))
		for s := len(hay) - 1; s >= 0; s-- {
			in := ex.ts.F
			for _, c := range set {
				in = ex.ts.Or(in, ex.ts.Eq(hay[s], c))
			}
			res = ex.ts.Ite(in, ex.ts.Const(64, uint64(s)), res)
		}
		return ex.ts.Const(64, ex.concretize(res)), true
	case "bytes.LastIndexByte":
		hay := ex.bytesOf(args[0])
		res := ex.ts.Const(64, ^uint64(0))
		for s := 0; s < len(hay); s++ {
			res = ex.ts.Ite(ex.ts.Eq(hay[s], args[1].(*Term)), ex.ts.Const(64, uint64(s)), res)
		}
		return ex.ts.Const(64, ex.concretize(res)), true
	case "bytes.HasSuffix", "strings.HasSuffix":
		hay, nd := ex.bytesOf(args[0]), ex.bytesOf(args[1])
		return ex.matchAt(hay, nd, len(hay)-len(nd)), true
	case "bytes.HasPrefix", "strings.HasPrefix":
		return ex.matchAt(ex.bytesOf(args[0]), ex.bytesOf(args[1]), 0), true
	case "bytes.ReplaceAll":
		hay, old, nw := ex.bytesOf(args[0]), ex.bytesOf(args[1]), ex.bytesOf(args[2])
		var out []*Term
		for s := 0; s < len(hay); {
			if len(old) > 0 && ex.decide(ex.matchAt(hay, old, s)) {
				out = append(out, nw...)
				s += len(old)
			} else {
				out = append(out, hay[s])
				s++
			}
		}
		return ex.mkByteSlice(out), true
	case "strings.Split":
		s, sep := ex.bytesOf(args[0]), ex.bytesOf(args[1])
		var parts []Value
		start := 0
		for p := 0; p+len(sep) <= len(s); {
			if ex.decide(ex.matchAt(s, sep, p)) {
				parts = append(parts, Str{s[start:p]})
				p += len(sep)
				start = p
			} else {
				p++
			}
		}
		parts = append(parts, Str{s[start:]})
		arr := ex.newArray(types.Typ[types.String], len(parts))
		copy(arr.vals, parts)
		n := ex.ts.Const(64, uint64(len(parts)))
		return Slice{arr, ex.ts.Const(64, 0), n, n}, true
	case "strconv.FormatInt", "strconv.Itoa":
		v := args[0].(*Term)
		if v.IsConst() {
			return nil, false // the real strconv code runs on concrete values
		}
		if name == "strconv.FormatInt" && !(args[1].(*Term).IsConst() && args[1].(*Term).val == 10) {
			panic(unsupported("FormatInt of a symbolic value in a base other than 10"))
		}
		return ex.numToken(v), true
	case "strconv.ParseInt":
		b := ex.bytesOf(args[0])
		if v, ok := ex.numTokenValue(b); ok {
			return Tuple{v, Iface{}}, true
		}
		if allConst(b) {
			return nil, false
		}
		v, ok := ex.parseSigned(b)
		if ex.decide(ok) {
			return Tuple{v, Iface{}}, true
		}
		return Tuple{ex.ts.Const(64, 0), ex.errValue("parse")}, true
	case "strconv.ParseUint":
		if allConst(ex.bytesOf(args[0])) {
			return nil, false
		}
		bits := uint(ex.concretize(args[2].(*Term)))
		v, ok := ex.parseDigits(ex.bytesOf(args[0]), bits)
		if ex.decide(ok) {
			return Tuple{v, Iface{}}, true
		}
		return Tuple{ex.ts.Const(64, 0), ex.errValue("parse")}, true
	case "strconv.Atoi":
		b := ex.bytesOf(args[0])
		if v, ok := ex.numTokenValue(b); ok {
			return Tuple{v, Iface{}}, true
		}
		if allConst(b) {
			return nil, false
		}
		v, ok := ex.parseSigned(b)
		if ex.decide(ok) {
			return Tuple{v, Iface{}}, true
		}
		return Tuple{ex.ts.Const(64, 0), ex.errValue("parse")}, true
	case "fmt.Errorf":
		return ex.errValue(ex.describe(args[0])), true
	}
	if fn.Name() == "init" && fn.Pkg != ex.pkg {
		// initialisers of other packages are skipped (their globals are opaque), except small pure-data packages whose
		// tables the executed library code indexes
		if fn.Pkg != nil && fn.Pkg.Pkg.Path() == "unicode/utf8" {
			return nil, false
		}
		return nil, true
	}
	return nil, false
}

func allConst(b []*Term) bool {
	for _, t := range b {
		if !t.IsConst() {
			return false
		}
	}
	return true
}

// Numeric tokens: a symbolic integer that has to travel through real byte arrays and the real line framing is
// rendered as 16 bytes 'a'+nibble (inside the protocol alphabet, never a digit, LF, ':' or '/'); ParseInt/Atoi of
// exactly such a run returns the original term. The native replay uses the real decimal rendering.
type numTok struct {
	b []*Term
	v *Term
}

func (ex *Exec) numToken(v *Term) Str {
	v = ex.ts.SExt(v, 64)
	b := make([]*Term, 16)
	for k := 0; k < 16; k++ {
		hi := 63 - 4*k
		nib := ex.ts.ZExt(ex.ts.Extract(v, hi, hi-3), 8)
		b[k] = ex.ts.Bin(OpAdd, nib, ex.ts.Const(8, 'a'))
	}
	toks, _ := ex.side["numtok"].(map[int]*numTok)
	if toks == nil {
		toks = map[int]*numTok{}
		ex.side["numtok"] = toks
	}
	toks[b[0].id] = &numTok{b, v}
	ex.stubsUsed["strconv: symbolic integers travel as 16-letter tokens (bijection)"]++
	return Str{b}
}

func (ex *Exec) numTokenValue(b []*Term) (*Term, bool) {
	if len(b) != 16 {
		return nil, false
	}
	toks, _ := ex.side["numtok"].(map[int]*numTok)
	t, ok := toks[b[0].id]
	if !ok {
		return nil, false
	}
	for k := range b {
		if b[k] != t.b[k] {
			return nil, false
		}
	}
	return t.v, true
}

// parseSigned: exact decimal model for short symbolic strings: optional sign, 1..18 digits.
func (ex *Exec) parseSigned(b []*Term) (*Term, *Term) {
	if len(b) == 0 {
		return ex.ts.Const(64, 0), ex.ts.F
	}
	if len(b) > 19 {
		panic(unsupported("ParseInt of a long symbolic string"))
	}
	isMinus := ex.ts.Eq(b[0], ex.ts.Const(8, '-'))
	isPlus := ex.ts.Eq(b[0], ex.ts.Const(8, '+'))
	// unsigned reading of the whole string and of the string without its first byte
	vAll, okAll := ex.parseDigits(b, 63)
	if len(b) == 1 {
		return vAll, okAll
	}
	vRest, okRest := ex.parseDigits(b[1:], 63)
	signed := ex.ts.Or(isMinus, isPlus)
	val := ex.ts.Ite(signed, ex.ts.Ite(isMinus, ex.ts.Neg(vRest), vRest), vAll)
	ok := ex.ts.Ite(signed, okRest, okAll)
	return val, ok
}
