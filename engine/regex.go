package main

import (
	"go/types"
	"regexp/syntax"
)

type RegexObj struct {
	pattern string
	re      *syntax.Regexp
	ncap    int
}

func (ex *Exec) compileRegex(p string) *RegexObj {
	re, err := syntax.Parse(p, syntax.Perl)
	if err != nil {
		panic(unsupported("regexp parse: " + err.Error()))
	}
	n := re.MaxCap()
	return &RegexObj{p, re.Simplify(), n}
}

// rxMatch: leftmost-first backtracking over byte terms; every character test is a decision.
type rxState struct {
	ex   *Exec
	in   []*Term
	caps []int
}

func (st *rxState) charIn(pos int, ranges []rune) bool {
	b := st.in[pos]
	c := st.ex.ts.F
	for i := 0; i+1 < len(ranges); i += 2 {
		lo, hi := ranges[i], ranges[i+1]
		if lo > 255 {
			continue
		}
		if hi > 127 {
			hi = 127 // non-ASCII runes never match single bytes >= 0x80 (invalid UTF-8 -> U+FFFD)
			if lo > hi {
				continue
			}
		}
		if lo == hi {
			c = st.ex.ts.Or(c, st.ex.ts.Eq(b, st.ex.ts.Const(8, uint64(lo))))
		} else {
			c = st.ex.ts.Or(c, st.ex.ts.And(st.ex.ts.Bin(OpULe, st.ex.ts.Const(8, uint64(lo)), b), st.ex.ts.Bin(OpULe, b, st.ex.ts.Const(8, uint64(hi)))))
		}
	}
	return st.ex.decide(c)
}

func (st *rxState) m(re *syntax.Regexp, pos int, k func(int) bool) bool {
	switch re.Op {
	case syntax.OpEmptyMatch:
		return k(pos)
	case syntax.OpLiteral:
		p := pos
		for _, r := range re.Rune {
			if p >= len(st.in) {
				return false
			}
			if re.Flags&syntax.FoldCase != 0 {
				panic(unsupported("regexp foldcase"))
			}
			if !st.ex.decide(st.ex.ts.Eq(st.in[p], st.ex.ts.Const(8, uint64(r)))) {
				return false
			}
			p++
		}
		return k(p)
	case syntax.OpCharClass:
		if pos >= len(st.in) || !st.charIn(pos, re.Rune) {
			return false
		}
		return k(pos + 1)
	case syntax.OpAnyCharNotNL:
		if pos >= len(st.in) || st.ex.decide(st.ex.ts.Eq(st.in[pos], st.ex.ts.Const(8, '\n'))) {
			return false
		}
		return k(pos + 1)
	case syntax.OpAnyChar:
		if pos >= len(st.in) {
			return false
		}
		return k(pos + 1)
	case syntax.OpBeginText:
		if pos != 0 {
			return false
		}
		return k(pos)
	case syntax.OpEndText:
		if pos != len(st.in) {
			return false
		}
		return k(pos)
	case syntax.OpCapture:
		old0, old1 := st.caps[2*re.Cap], st.caps[2*re.Cap+1]
		return st.m(re.Sub[0], pos, func(e int) bool {
			s0, s1 := st.caps[2*re.Cap], st.caps[2*re.Cap+1]
			st.caps[2*re.Cap], st.caps[2*re.Cap+1] = pos, e
			if k(e) {
				return true
			}
			st.caps[2*re.Cap], st.caps[2*re.Cap+1] = s0, s1
			return false
		}) || func() bool { st.caps[2*re.Cap], st.caps[2*re.Cap+1] = old0, old1; return false }()
	case syntax.OpConcat:
		var seq func(i, p int) bool
		seq = func(i, p int) bool {
			if i == len(re.Sub) {
				return k(p)
			}
			return st.m(re.Sub[i], p, func(e int) bool { return seq(i+1, e) })
		}
		return seq(0, pos)
	case syntax.OpAlternate:
		for _, s := range re.Sub {
			if st.m(s, pos, k) {
				return true
			}
		}
		return false
	case syntax.OpQuest:
		if re.Flags&syntax.NonGreedy != 0 {
			return k(pos) || st.m(re.Sub[0], pos, k)
		}
		return st.m(re.Sub[0], pos, k) || k(pos)
	case syntax.OpStar, syntax.OpPlus:
		var loop func(p int, first bool) bool
		loop = func(p int, first bool) bool {
			more := func() bool {
				return st.m(re.Sub[0], p, func(e int) bool {
					if e == p {
						return false
					}
					return loop(e, false)
				})
			}
			stop := func() bool {
				if first && re.Op == syntax.OpPlus {
					return false
				}
				return k(p)
			}
			if re.Flags&syntax.NonGreedy != 0 {
				return stop() || more()
			}
			return more() || stop()
		}
		return loop(pos, true)
	}
	panic(unsupported("regexp op " + re.Op.String()))
}

// literalPrefix returns the bytes every match must start with (empty if none).
func literalPrefix(re *syntax.Regexp) []byte {
	switch re.Op {
	case syntax.OpLiteral:
		if re.Flags&syntax.FoldCase != 0 {
			return nil
		}
		var out []byte
		for _, r := range re.Rune {
			if r > 127 {
				return out
			}
			out = append(out, byte(r))
		}
		return out
	case syntax.OpConcat:
		if len(re.Sub) > 0 {
			return literalPrefix(re.Sub[0])
		}
	case syntax.OpCapture:
		return literalPrefix(re.Sub[0])
	}
	return nil
}

// find returns capture indices of the leftmost-first match at or after 'from', or nil.
func (ex *Exec) rxFind(r *RegexObj, in []*Term, from int) []int {
	pre := literalPrefix(r.re)
	var preT []*Term
	for _, b := range pre {
		preT = append(preT, ex.ts.Const(8, uint64(b)))
	}
	for s := from; s <= len(in); s++ {
		if len(preT) > 0 {
			// prefilter: is there any occurrence of the literal prefix at or after s? (one term, no per-byte forks)
			any := ex.ts.F
			for q := s; q+len(preT) <= len(in); q++ {
				any = ex.ts.Or(any, ex.matchAt(in, preT, q))
			}
			if !ex.decide(any) {
				return nil
			}
			// leftmost occurrence, by case split
			first := ex.ts.Const(64, ^uint64(0))
			for q := len(in) - len(preT); q >= s; q-- {
				first = ex.ts.Ite(ex.matchAt(in, preT, q), ex.ts.Const(64, uint64(q)), first)
			}
			s = int(ex.concretize(first))
		}
		st := &rxState{ex: ex, in: in, caps: make([]int, 2*(r.ncap+1))}
		for i := range st.caps {
			st.caps[i] = -1
		}
		end := -1
		if st.m(r.re, s, func(e int) bool { end = e; return true }) {
			st.caps[0], st.caps[1] = s, end
			return st.caps
		}
	}
	return nil
}

var byteSliceT = types.NewSlice(types.Typ[types.Byte])

func (ex *Exec) rxSubmatchValue(src Slice, caps []int) Value {
	n := len(caps) / 2
	arr := ex.newArray(byteSliceT, n)
	for i := 0; i < n; i++ {
		if caps[2*i] < 0 {
			arr.vals[i] = ex.zero(byteSliceT)
			continue
		}
		lo, hi := uint64(caps[2*i]), uint64(caps[2*i+1])
		arr.vals[i] = Slice{src.arr, ex.ts.Bin(OpAdd, src.off, ex.ts.Const(64, lo)), ex.ts.Const(64, hi-lo), ex.ts.Const(64, hi-lo)}
	}
	c := ex.ts.Const(64, uint64(n))
	return Slice{arr, ex.ts.Const(64, 0), c, c}
}

func (ex *Exec) regexIntrinsic(name string, args []Value) (Value, bool) {
	switch name {
	case "regexp.MustCompile":
		return ex.compileRegex(ex.describe(args[0])), true
	case "(*regexp.Regexp).FindSubmatch":
		r := args[0].(*RegexObj)
		src := args[1].(Slice)
		caps := ex.rxFind(r, ex.sliceBytes(src), 0)
		if caps == nil {
			return ex.zero(types.NewSlice(byteSliceT)), true
		}
		return ex.rxSubmatchValue(src, caps), true
	case "(*regexp.Regexp).Match":
		r := args[0].(*RegexObj)
		caps := ex.rxFind(r, ex.sliceBytes(args[1].(Slice)), 0)
		return ex.ts.Bool(caps != nil), true
	case "(*regexp.Regexp).FindAllSubmatch":
		r := args[0].(*RegexObj)
		src := args[1].(Slice)
		in := ex.sliceBytes(src)
		var all []Value
		from := 0
		for from <= len(in) {
			caps := ex.rxFind(r, in, from)
			if caps == nil {
				break
			}
			all = append(all, ex.rxSubmatchValue(src, caps))
			if caps[1] == caps[0] {
				from = caps[1] + 1
			} else {
				from = caps[1]
			}
		}
		t := types.NewSlice(types.NewSlice(byteSliceT))
		if len(all) == 0 {
			return ex.zero(t), true
		}
		arr := ex.newArray(types.NewSlice(byteSliceT), len(all))
		copy(arr.vals, all)
		c := ex.ts.Const(64, uint64(len(all)))
		return Slice{arr, ex.ts.Const(64, 0), c, c}, true
	}
	return nil, false
}
