package main

import (
	"bufio"
	"fmt"
	"io"
	"os/exec"
	"strconv"
	"strings"
	"time"
)

type Solver struct {
	cmd     *exec.Cmd
	in      io.WriteCloser
	out     *bufio.Reader
	defined map[int]bool
	nSat    int
	nUnsat  int
	nUnk    int
	nErr    int
	dur     time.Duration
	log     io.Writer
	inPath  bool
	logic   string
	timeoutMs int
}

func NewSolver(argv ...string) (*Solver, error) {
	cmd := exec.Command(argv[0], argv[1:]...)
	in, err := cmd.StdinPipe()
	if err != nil {
		return nil, err
	}
	out, err := cmd.StdoutPipe()
	if err != nil {
		return nil, err
	}
	cmd.Stderr = cmd.Stdout
	if err := cmd.Start(); err != nil {
		return nil, err
	}
	s := &Solver{cmd: cmd, in: in, out: bufio.NewReader(out), defined: map[int]bool{}}
	s.send("(set-option :print-success false)")
	return s, nil
}

func (s *Solver) send(line string) {
	if s.log != nil {
		fmt.Fprintln(s.log, line)
	}
	io.WriteString(s.in, line+"\n")
}

func (s *Solver) Close() {
	s.send("(exit)")
	s.in.Close()
	s.cmd.Wait()
}

func (s *Solver) Reset() {
	s.send("(reset)")
	s.send("(set-option :print-success false)")
	if s.logic != "" {
		s.send("(set-option :produce-models true)")
		s.send("(set-logic " + s.logic + ")")
	}
	if s.timeoutMs > 0 {
		s.send(fmt.Sprintf("(set-option :timeout %d)", s.timeoutMs))
	}
	s.defined = map[int]bool{}
}

func (s *Solver) BeginPath() {
	if s.inPath {
		s.send("(pop 1)")
	}
	s.send("(push 1)")
	s.inPath = true
}

func (s *Solver) define(t *Term) {
	if t.op == OpConst || s.defined[t.id] {
		return
	}
	// iterative post-order
	type fr struct {
		t *Term
		i int
	}
	st := []fr{{t, 0}}
	for len(st) > 0 {
		f := &st[len(st)-1]
		if f.i < len(f.t.args) {
			a := f.t.args[f.i]
			f.i++
			if a.op != OpConst && !s.defined[a.id] {
				st = append(st, fr{a, 0})
			}
			continue
		}
		if !s.defined[f.t.id] {
			s.defined[f.t.id] = true
			s.send(f.t.def())
		}
		st = st[:len(st)-1]
	}
}

func (s *Solver) Assert(t *Term) {
	s.define(t)
	s.send("(assert " + t.ref() + ")")
}

func (s *Solver) readLine() string {
	line, err := s.out.ReadString('\n')
	if err != nil {
		return "(error \"solver died: " + err.Error() + "\")"
	}
	return strings.TrimSpace(line)
}

// Check returns "sat", "unsat" or "unknown" for current assertions plus extra (may be nil).
func (s *Solver) Check(extra *Term) string {
	t0 := time.Now()
	defer func() { s.dur += time.Since(t0) }()
	if extra != nil {
		s.define(extra)
		s.send("(push 1)")
		s.send("(assert " + extra.ref() + ")")
	}
	s.send("(check-sat)")
	res := s.readLine()
	for res == "" {
		res = s.readLine()
	}
	if res == "unknown" && s.timeoutMs > 0 {
		// the per-query limit is wall-clock time: on a loaded machine a query that normally takes a second can run
		// into it. Ask once more with five times the limit before the answer counts as inconclusive.
		s.send(fmt.Sprintf("(set-option :timeout %d)", s.timeoutMs*5))
		s.send("(check-sat)")
		res = s.readLine()
		for res == "" {
			res = s.readLine()
		}
		s.send(fmt.Sprintf("(set-option :timeout %d)", s.timeoutMs))
	}
	if extra != nil {
		s.send("(pop 1)")
	}
	switch res {
	case "sat":
		s.nSat++
	case "unsat":
		s.nUnsat++
	case "unknown":
		s.nUnk++
	default:
		s.nErr++
		if s.nErr < 3 {
			fmt.Println("SOLVER ERROR:", res)
		}
		res = "error:" + res
	}
	return res
}

// CheckModel checks pc+extra and, if sat, returns values of vars.
func (s *Solver) CheckModel(extra *Term, vars []*Term) (string, map[string]uint64) {
	t0 := time.Now()
	defer func() { s.dur += time.Since(t0) }()
	if extra != nil {
		s.define(extra)
	}
	for _, v := range vars {
		s.define(v)
	}
	s.send("(push 1)")
	if extra != nil {
		s.send("(assert " + extra.ref() + ")")
	}
	s.send("(check-sat)")
	res := s.readLine()
	for res == "" {
		res = s.readLine()
	}
	var m map[string]uint64
	if res == "sat" {
		s.nSat++
		m = map[string]uint64{}
		for _, v := range vars {
			s.send("(get-value (" + v.ref() + "))")
			l := s.readLine()
			// ((name #x..)) or ((name true))
			l = strings.TrimSuffix(strings.TrimPrefix(l, "(("), "))")
			idx := strings.LastIndex(l, " ")
			val := l[idx+1:]
			if v.op == OpVar {
				m[v.name] = parseVal(val)
			} else {
				m[v.ref()] = parseVal(val)
			}
		}
	} else if res == "unsat" {
		s.nUnsat++
	} else {
		s.nUnk++
	}
	s.send("(pop 1)")
	return res, m
}

func parseVal(v string) uint64 {
	switch {
	case v == "true":
		return 1
	case v == "false":
		return 0
	case strings.HasPrefix(v, "#x"):
		x, _ := strconv.ParseUint(v[2:], 16, 64)
		return x
	case strings.HasPrefix(v, "#b"):
		x, _ := strconv.ParseUint(v[2:], 2, 64)
		return x
	}
	return 0
}
