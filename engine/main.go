package main

import (
	"flag"
	"fmt"
	"os"
	"sort"
	"strings"
	"sync"
	"time"

	"golang.org/x/tools/go/packages"
	"golang.org/x/tools/go/ssa"
	"golang.org/x/tools/go/ssa/ssautil"
)

type PathResult struct {
	status    string
	msg       string
	decisions int
	steps     int
	viols     []Violation
	pending   [][]Dec
	reached   map[string]bool
	funcs     map[string]int
	stubs     map[string]int
	inconcl   int
}

type Worker struct {
	prog         *ssa.Program
	pkg          *ssa.Package
	sol          *Solver
	exploreSched bool
	ts           *TermStore
}

func (w *Worker) runPath(fn *ssa.Function, prefix []Dec, loopBound, maxSteps int) (res PathResult) {
	ts := NewTermStore()
	w.sol.Reset()
	ex := &Exec{prog: w.prog, pkg: w.pkg, ts: ts, sol: w.sol, prefix: prefix, globals: map[*ssa.Global]Loc{},
		opaques: map[string]*Opaque{}, maxSteps: maxSteps, loopBound: loopBound, reached: map[string]bool{},
		funcsUsed: map[string]int{}, stubsUsed: map[string]int{}}
	defer func() {
		res.decisions = len(ex.decisions)
		res.steps = ex.steps
		res.viols = ex.viols
		res.pending = ex.pending
		res.reached = ex.reached
		res.funcs = ex.funcsUsed
		res.stubs = ex.stubsUsed
		res.inconcl = ex.inconcl
		if r := recover(); r != nil {
			switch e := r.(type) {
			case pathEnd:
				res.status, res.msg = e.status, e.msg
				if e.status == "blocked" {
					if ex.expectBlk == 1 {
						ex.violation("blocked", "blocked although input complete: "+e.msg, nil)
						res.viols = ex.viols
					}
				}
			case goPanic:
				res.status, res.msg = "panic", e.msg
				ex.violation("panic", e.msg, nil)
				res.viols = ex.viols
			case unsupportedErr:
				res.status, res.msg = "unsupported", e.msg
			default:
				panic(r)
			}
		}
	}()
	ex.side = map[interface{}]interface{}{}
	ex.pureCache = map[*ssa.Function]bool{}
	ex.lits = map[int]bool{}
	ex.exploreSched = w.exploreSched
	ex.runThreads(func() {
		if initFn := w.pkg.Func("init"); initFn != nil {
			ex.call(Closure{fn: initFn}, nil, nil)
		}
		ex.call(Closure{fn: fn}, nil, nil)
	})
	if ex.expectBlk == 2 {
		ex.violation("noblock", "returned although expected to block", nil)
	}
	res.status = "ok"
	return
}

func main() {
	harnessFile := flag.String("harness", "", "harness go file (package trzsz)")
	entry := flag.String("entry", "", "entry function")
	nworkers := flag.Int("j", 8, "workers")
	loopBound := flag.Int("unwind", 64, "loop bound")
	maxSteps := flag.Int("steps", 2000000, "max steps per path")
	maxPaths := flag.Int("maxpaths", 1000000, "max paths")
	solver := flag.String("solver", "z3", "solver binary")
	explore := flag.Bool("sched", false, "explore schedules")
	ovs := flag.String("ov", "", "extra overlays real=fake,real=fake")
	flag.Parse()

	t0 := time.Now()
	src, err := os.ReadFile(*harnessFile)
	if err != nil {
		panic(err)
	}
	cfg := &packages.Config{
		Mode:    packages.LoadAllSyntax,
		Dir:     "/repo",
		Overlay: map[string][]byte{"/repo/trzsz/zz_verif_harness.go": src},
		Env:     append(os.Environ(), "GOFLAGS=-mod=mod", "GOPROXY=off"),
	}
	if *ovs != "" {
		for _, kv := range strings.Split(*ovs, ",") {
			p := strings.SplitN(kv, "=", 2)
			b, err := os.ReadFile(p[1])
			if err != nil {
				panic(err)
			}
			cfg.Overlay[p[0]] = b
		}
	}
	pkgs, err := packages.Load(cfg, "./trzsz")
	if err != nil {
		panic(err)
	}
	if packages.PrintErrors(pkgs) > 0 {
		os.Exit(2)
	}
	prog, spkgs := ssautil.AllPackages(pkgs, ssa.InstantiateGenerics)
	prog.Build()
	pkg := spkgs[0]
	fn := pkg.Func(*entry)
	if fn == nil {
		fmt.Println("no entry", *entry)
		os.Exit(2)
	}
	loadT := time.Since(t0)

	var mu sync.Mutex
	work := [][]Dec{nil}
	active := 0
	cond := sync.NewCond(&mu)
	stats := map[string]int{}
	var allViols []Violation
	reached := map[string]bool{}
	funcs := map[string]int{}
	stubs := map[string]int{}
	msgs := map[string]int{}
	totalSteps, totalDec, npaths, inconcl := 0, 0, 0, 0
	var solTime time.Duration
	nq := 0
	var wg sync.WaitGroup
	for wi := 0; wi < *nworkers; wi++ {
		wg.Add(1)
		go func() {
			defer wg.Done()
			var args []string
			if *solver == "cvc5" {
				args = []string{"cvc5", "--incremental", "--lang=smt2", "--produce-models"}
				if os.Getenv("CVC5_BVINT") != "" {
					args = append(args, "--solve-bv-as-int="+os.Getenv("CVC5_BVINT"))
				}
			} else {
				args = []string{*solver, "-in"}
			}
			sol, err := NewSolver(args...)
			if err != nil {
				panic(err)
			}
			if *solver == "cvc5" {
				sol.logic = "QF_BV"
			}
			if lf := os.Getenv("VSYM_LOG"); lf != "" {
				f, _ := os.Create(lf)
				sol.log = f
			}
			w := &Worker{prog: prog, pkg: pkg, sol: sol, exploreSched: *explore}
			for {
				mu.Lock()
				for len(work) == 0 && active > 0 {
					cond.Wait()
				}
				if len(work) == 0 || npaths >= *maxPaths {
					mu.Unlock()
					cond.Broadcast()
					break
				}
				p := work[len(work)-1]
				work = work[:len(work)-1]
				active++
				mu.Unlock()
				r := w.runPath(fn, p, *loopBound, *maxSteps)
				mu.Lock()
				active--
				npaths++
				stats[r.status]++
				if r.status != "ok" {
					msgs[r.status+": "+r.msg]++
				}
				work = append(work, r.pending...)
				allViols = append(allViols, r.viols...)
				for k := range r.reached {
					reached[k] = true
				}
				for k, v := range r.funcs {
					funcs[k] += v
				}
				for k, v := range r.stubs {
					stubs[k] += v
				}
				totalSteps += r.steps
				totalDec += r.decisions
				inconcl += r.inconcl
				mu.Unlock()
				cond.Broadcast()
			}
			mu.Lock()
			solTime += sol.dur
			nq += sol.nSat + sol.nUnsat + sol.nUnk + sol.nErr
			mu.Unlock()
			sol.Close()
		}()
	}
	wg.Wait()
	fmt.Printf("entry=%s load=%.1fs wall=%.1fs paths=%d steps=%d decisions=%d queries=%d solver_cpu=%.1fs inconclusive=%d\n",
		*entry, loadT.Seconds(), time.Since(t0).Seconds(), npaths, totalSteps, totalDec, nq, solTime.Seconds(), inconcl)
	fmt.Println("status:", stats)
	var ks []string
	for k := range msgs {
		ks = append(ks, k)
	}
	sort.Strings(ks)
	for _, k := range ks {
		fmt.Printf("  %5d %s\n", msgs[k], k)
	}
	fmt.Println("reached:", reached)
	fmt.Println("functions encoded:")
	ks = nil
	for k := range funcs {
		ks = append(ks, k)
	}
	sort.Strings(ks)
	for _, k := range ks {
		fmt.Printf("  %6d %s\n", funcs[k], k)
	}
	fmt.Println("stubs:", stubs)
	fmt.Printf("violations: %d\n", len(allViols))
	for i, v := range allViols {
		if i >= 5 {
			break
		}
		fmt.Printf("  %s: %s model=%v\n", v.kind, v.msg, v.model)
	}
}
