package main

import (
	"flag"
	"fmt"
	"os"
	"path/filepath"
	"sort"
	"strings"
	"time"
)

// vsym: bounded symbolic execution of go/ssa for the trzsz-go properties.
//   vsym check <ID> [--tier quick|thorough] [--seed N] [--only run]   decide one property (spec in /verif/checks)
//   vsym replay <file>                                                 re-run a counterexample natively
//   vsym run -harness a.go[,b.go] -entry F [...]                       one exploration, for development
func main() {
	if len(os.Args) < 2 {
		fmt.Println("usage: vsym check|replay|run ...")
		os.Exit(2)
	}
	switch os.Args[1] {
	case "check":
		os.Exit(checkMain(os.Args[2:]))
	case "replay":
		os.Exit(replayMain(os.Args[2:]))
	case "run":
		os.Exit(runMain(os.Args[2:]))
	}
	fmt.Println("unknown command", os.Args[1])
	os.Exit(2)
}

func runMain(args []string) int {
	fs := flag.NewFlagSet("run", flag.ExitOnError)
	harnessFile := fs.String("harness", "", "harness go files under /verif/harness (comma separated)")
	entry := fs.String("entry", "", "entry function")
	nworkers := fs.Int("j", 16, "workers")
	loopBound := fs.Int("unwind", 64, "loop bound")
	maxSteps := fs.Int("steps", 2000000, "max steps per path")
	maxPaths := fs.Int("maxpaths", 1000000, "max paths")
	solver := fs.String("solver", "z3", "solver binary")
	explore_ := fs.Bool("sched", false, "explore schedules")
	ovs := fs.String("ov", "", "extra overlays real=fake,real=fake (e.g. a mutant of a repo file)")
	bounds := fs.String("b", "", "bounds N=6,M=3")
	timeout := fs.Int("timeout", 0, "seconds")
	allowPanic := fs.Bool("allowpanic", false, "go panics are not violations")
	preempt := fs.Int("preempt", -1, "schedule exploration: pre-emption bound (-1 unbounded)")
	fs.Parse(args)

	spec := &Spec{Harness: strings.Split(*harnessFile, ",")}
	ov, err := harnessOverlay(spec, false)
	if err != nil {
		fmt.Println(err)
		return 2
	}
	if *ovs != "" {
		for _, kv := range strings.Split(*ovs, ",") {
			p := strings.SplitN(kv, "=", 2)
			b, err := os.ReadFile(p[1])
			if err != nil {
				fmt.Println(err)
				return 2
			}
			ov[filepath.Join(repoPkgDir, p[0])] = b
		}
	}
	if os.Getenv("VSYM_FORKSTAT") != "" {
		forkStat = map[string]int{}
		defer func() {
			type kv struct {
				k string
				v int
			}
			var l []kv
			for k, v := range forkStat {
				l = append(l, kv{k, v})
			}
			sort.Slice(l, func(i, j int) bool { return l[i].v > l[j].v })
			for i, e := range l {
				if i < 15 {
					fmt.Printf("forks %8d  %s\n", e.v, e.k)
				}
			}
		}()
	}
	prog, err := loadProgram(ov)
	if err != nil {
		fmt.Println(err)
		return 2
	}
	bm := map[string]int64{}
	if *bounds != "" {
		for _, kv := range strings.Split(*bounds, ",") {
			p := strings.SplitN(kv, "=", 2)
			var v int64
			fmt.Sscan(p[1], &v)
			bm[p[0]] = v
		}
	}
	opts := RunOpts{Entry: *entry, Bounds: bm, Solver: *solver, Sched: *explore_, Unwind: *loopBound, MaxSteps: *maxSteps,
		MaxPaths: *maxPaths, Workers: *nworkers, AllowPanic: *allowPanic, Preempt: *preempt}
	if *timeout > 0 {
		opts.Deadline = time.Now().Add(time.Duration(*timeout) * time.Second)
	}
	rr, err := explore(prog, opts)
	if err != nil {
		fmt.Println(err)
		return 2
	}
	fmt.Printf("entry=%s load=%.1fs wall=%.1fs paths=%d steps=%d decisions=%d queries=%v solver_cpu=%.1fs inconclusive=%d timedout=%v\n",
		*entry, prog.loadS, rr.WallS, rr.Paths, rr.Steps, rr.Decisions, rr.Queries, rr.SolverS, rr.Inconcl, rr.TimedOut)
	fmt.Println("status:", rr.Status)
	var ks []string
	for k := range rr.Msgs {
		ks = append(ks, k)
	}
	sort.Strings(ks)
	for _, k := range ks {
		fmt.Printf("  %5d %s\n", rr.Msgs[k], k)
	}
	fmt.Println("reached:", rr.Reached)
	if os.Getenv("VSYM_VERBOSE") != "" {
		fmt.Println("functions encoded:")
		ks = nil
		for k := range rr.Funcs {
			ks = append(ks, k)
		}
		sort.Strings(ks)
		for _, k := range ks {
			fmt.Printf("  %6d %s\n", rr.Funcs[k], k)
		}
		fmt.Println("stubs:", rr.Stubs)
	}
	fmt.Printf("violations: %d\n", len(rr.Viols))
	seen := map[string]int{}
	for _, v := range rr.Viols {
		seen[v.kind+": "+v.msg]++
	}
	for k, n := range seen {
		fmt.Printf("  %5d %s\n", n, k)
	}
	for i, v := range rr.Viols {
		if i >= 3 {
			break
		}
		fmt.Printf("  e.g. %s: %s inputs=%s\n", v.kind, v.msg, fmtInputs(v.hvals))
	}
	return 0
}
