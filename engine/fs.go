package main

import (
	"fmt"
	"go/types"
	"reflect"
	"sort"

	"golang.org/x/tools/go/ssa"
)

type fsNode struct {
	pre     bool
	isDir   bool
	content []*Term
}

type FileObj struct {
	path   string
	node   *fsNode
	pos    int
	closed bool
	id     int
}

type fsEnt struct {
	key  []*Term
	node *fsNode
}

type fsState struct {
	ents    []fsEnt
	evPaths []Str
	evPre   []bool
	absent  [][]*Term
	symEx   bool
	nodes   map[string]*fsNode
	handles []*FileObj
	events  []string
	tokens  map[string]Value // codec / json tokens
	ntok    int
}

func (ex *Exec) fs() *fsState {
	if s, ok := ex.side["fs"]; ok {
		return s.(*fsState)
	}
	s := &fsState{nodes: map[string]*fsNode{}, tokens: map[string]Value{}}
	ex.side["fs"] = s
	return s
}

func (ex *Exec) concreteStr(v Value) string {
	var bs []*Term
	switch x := v.(type) {
	case Str:
		bs = x.b
	case Slice:
		bs = ex.bytesOf(x)
	}
	out := make([]byte, len(bs))
	for i, b := range bs {
		if !b.IsConst() {
			panic(unsupported("stub needs a concrete string (path/token)"))
		}
		out[i] = byte(b.val)
	}
	return string(out)
}

func (ex *Exec) pathTerms(v Value) []*Term {
	switch x := v.(type) {
	case Str:
		return x.b
	case Rope:
		var bs []*Term
		for _, sg := range x.segs {
			if sg.opaque {
				panic(unsupported("opaque path"))
			}
			bs = append(bs, sg.b...)
		}
		return bs
	}
	return ex.bytesOf(v)
}

func (ex *Exec) fsFind(p []*Term) *fsNode {
	s := ex.fs()
	for _, e := range s.ents {
		if len(e.key) != len(p) {
			continue
		}
		c := ex.ts.T
		for i := range p {
			c = ex.ts.And(c, ex.ts.Eq(p[i], e.key[i]))
		}
		if ex.decide(c) {
			return e.node
		}
	}
	for _, a := range s.absent {
		if len(a) != len(p) {
			continue
		}
		c := ex.ts.T
		for i := range p {
			c = ex.ts.And(c, ex.ts.Eq(p[i], a[i]))
		}
		if ex.decide(c) {
			return nil
		}
	}
	if s.symEx {
		if ex.decide(ex.nondet(BoolSort)) {
			n := &fsNode{pre: true, isDir: ex.decide(ex.nondet(BoolSort))}
			ex.fsPut(p, n)
			return n
		}
		s.absent = append(s.absent, p)
	}
	return nil
}

func (ex *Exec) fsPut(p []*Term, n *fsNode) {
	s := ex.fs()
	s.ents = append(s.ents, fsEnt{p, n})
}

func (s *fsState) openCount() int {
	n := 0
	for _, h := range s.handles {
		if !h.closed {
			n++
		}
	}
	return n
}

var errorT = types.Universe.Lookup("error").Type()

func (ex *Exec) fsErr(kind string) Value { return Iface{t: errorT, v: ex.opaque("fserr:" + kind)} }

type FileInfoObj struct{ node *fsNode }

func (ex *Exec) fsIntrinsic(fn *ssa.Function, name string, args []Value) (Value, bool) {
	s := ex.fs()
	switch name {
	case "os.Stat":
		p := ex.pathTerms(args[0])
		if n := ex.fsFind(p); n != nil {
			return Tuple{Iface{t: types.NewPointer(types.Typ[types.Int]), v: &FileInfoObj{n}}, Iface{}}, true
		}
		return Tuple{Iface{}, ex.fsErr("notexist")}, true
	case "os.IsNotExist":
		e := args[0].(Iface)
		o, _ := e.v.(*Opaque)
		return ex.ts.Bool(o != nil && o.name == "fserr:notexist"), true
	case "os.MkdirAll":
		p := ex.pathTerms(args[0])
		s.evPaths = append(s.evPaths, Str{p})
		ex.fsPut(p, &fsNode{isDir: true})
		return Iface{}, true
	case "os.OpenFile", "os.Open":
		pt := ex.pathTerms(args[0])
		p := fmt.Sprint(len(s.handles))
		flag := uint64(0)
		if name == "os.OpenFile" {
			flag = ex.concretize(args[1].(*Term))
		}
		n := ex.fsFind(pt)
		if flag&0x40 != 0 {
			s.evPaths = append(s.evPaths, Str{pt})
			s.evPre = append(s.evPre, n != nil && n.pre)
		}
		if n == nil {
			if flag&0x40 == 0 { // O_CREATE
				return Tuple{Ptr{}, ex.fsErr("notexist")}, true
			}
			n = &fsNode{}
			ex.fsPut(pt, n)
		}
		if n.isDir {
			return Tuple{Ptr{}, ex.fsErr("isdir")}, true
		}
		if flag&0x200 != 0 { // O_TRUNC
			n.content = nil
		}
		h := &FileObj{path: p, node: n, id: len(s.handles)}
		s.handles = append(s.handles, h)
		return Tuple{h, Iface{}}, true
	case "(*os.File).Close":
		h := args[0].(*FileObj)
		h.closed = true
		return Iface{}, true
	case "(*os.File).Write":
		h := args[0].(*FileObj)
		b := ex.bytesOf(args[1])
		h.node.content = append(h.node.content[:minI(h.pos, len(h.node.content))], b...)
		h.pos += len(b)
		return Tuple{ex.ts.Const(64, uint64(len(b))), Iface{}}, true
	case "(*os.File).Read":
		h := args[0].(*FileObj)
		dst := args[1].(Slice)
		n := int(ex.concretize(dst.len))
		avail := len(h.node.content) - h.pos
		if avail <= 0 {
			return Tuple{ex.ts.Const(64, 0), ex.load(Ptr{loc: ex.globalLoc(ex.extGlobal("io", "EOF"))}, nil)}, true
		}
		if n > avail {
			n = avail
		}
		for i := 0; i < n; i++ {
			ex.storeElem(dst.arr, ex.ts.Bin(OpAdd, dst.off, ex.ts.Const(64, uint64(i))), h.node.content[h.pos+i])
		}
		h.pos += n
		return Tuple{ex.ts.Const(64, uint64(n)), Iface{}}, true
	}
	if fn.Pkg == ex.pkg {
		switch fn.Name() {
		case "encodeString":
			s.ntok++
			tok := fmt.Sprintf("H%d", s.ntok)
			s.tokens[tok] = args[0]
			return ex.strConst(tok), true
		case "decodeString":
			v, ok := s.tokens[ex.concreteStr(args[0])]
			if !ok {
				return Tuple{ex.zero(types.NewSlice(types.Typ[types.Byte])), ex.fsErr("decode")}, true
			}
			return Tuple{ex.mkByteSlice(v.(Str).b), Iface{}}, true
		case "verifFSAddFile":
			ex.fsPut(ex.pathTerms(args[0]), &fsNode{content: ex.bytesOf(args[1])})
			return nil, true
		case "verifFSAddDir":
			ex.fsPut(ex.pathTerms(args[0]), &fsNode{isDir: true})
			return nil, true
		case "verifFSContent":
			n := ex.fsFind(ex.pathTerms(args[0]))
			if n == nil || n.isDir {
				return ex.zero(types.NewSlice(types.Typ[types.Byte])), true
			}
			return ex.mkByteSlice(n.content), true
		case "verifFSKind": // 0 absent 1 file 2 dir
			n := ex.fsFind(ex.pathTerms(args[0]))
			k := uint64(0)
			if n != nil {
				k = 1
				if n.isDir {
					k = 2
				}
			}
			return ex.ts.Const(64, k), true
		case "verifFSSymbolicExists":
			s.symEx = true
			return nil, true
		case "verifFSEventPre":
			return ex.ts.Bool(s.evPre[int(ex.concretize(args[0].(*Term)))]), true
		case "verifFSEvents":
			return ex.ts.Const(64, uint64(len(s.evPaths))), true
		case "verifFSEventPath":
			return s.evPaths[int(ex.concretize(args[0].(*Term)))], true
		case "verifFSOpenHandles":
			return ex.ts.Const(64, uint64(s.openCount())), true
		case "verifFSCount":
			return ex.ts.Const(64, uint64(len(s.nodes))), true
		}
	}
	switch name {
	case "encoding/json.Marshal":
		src := args[0].(Iface).v.(Ptr).loc.(*StructObj)
		s.ntok++
		tok := fmt.Sprintf("J%d", s.ntok)
		s.tokens[tok] = ex.cloneLoc(src)
		return Tuple{ex.mkByteSlice(ex.strConst(tok).b), Iface{}}, true
	case "encoding/json.Unmarshal":
		v, ok := s.tokens[ex.concreteStr(args[0])]
		if !ok {
			return ex.fsErr("json"), true
		}
		dst := args[1].(Iface).v.(Ptr).loc.(*StructObj)
		srcObj := v.(*StructObj)
		for i := range dst.fields {
			tag := reflect.StructTag(dst.typ.Tag(i)).Get("json")
			if tag == "-" {
				continue
			}
			ex.copyInto(dst.fields[i], ex.cloneLoc(srcObj.fields[i]))
		}
		return Iface{}, true
	}
	return nil, false
}

func minI(a, b int) int {
	if a < b {
		return a
	}
	return b
}

func (s *fsState) dump() []string {
	var ks []string
	for k := range s.nodes {
		ks = append(ks, k)
	}
	sort.Strings(ks)
	return ks
}
