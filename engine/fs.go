package main

import (
	"fmt"
	"go/types"
	"reflect"
	"sort"
	"strings"

	"golang.org/x/tools/go/ssa"
)

// Stub file system: a finite set of nodes keyed by path byte-terms (paths may be symbolic), an event log of every
// mutating call, a table of open handles. Paths arrive already cleaned because path/filepath is executed, not stubbed.

const fsRootStr = "/w/a/b/c/dest" // the destination directory of the symbolic world; natively $VERIF_WORK/a/b/c/dest

type fsNode struct {
	key      []*Term
	pre      bool // existed before the code under test ran
	isDir    bool
	removed  bool
	modified bool // truncated, written or removed
	content  []*Term
	id       int
	sym      bool // created by the symbolic-exists oracle (goes into the replay environment)
}

type FileObj struct {
	node   *fsNode
	pos    int
	closed bool
	id     int
	write  bool
}

type fsEvent struct {
	op   string // create open-write mkdir remove truncate write
	path []*Term
	node *fsNode
}

type takenRule struct{ dir, name []*Term }

type fsState struct {
	ents    []*fsNode
	absent  [][]*Term
	symEx   bool
	symMax  int // at most this many unknown paths pre-exist (-1 = unbounded)
	nsym    int
	armed   bool
	handles []*FileObj
	events  []fsEvent
	taken   []takenRule
	tokens  map[string]Value // codec / json tokens
	ntok    int
	opens   int
}

func (ex *Exec) fs() *fsState {
	if s, ok := ex.side["fs"]; ok {
		return s.(*fsState)
	}
	s := &fsState{tokens: map[string]Value{}}
	ex.side["fs"] = s
	return s
}

func (ex *Exec) concreteStr(v Value) string {
	var bs []*Term
	switch x := v.(type) {
	case Str:
		bs = x.b
	case Slice:
		bs = ex.bytesOf(x)
	case Rope:
		bs = ex.pathTerms(x)
	}
	out := make([]byte, len(bs))
	for i, b := range bs {
		if !b.IsConst() {
			panic(unsupported("stub needs a concrete string (path/token): " + ex.describe(Str{bs})))
		}
		out[i] = byte(b.val)
	}
	return string(out)
}

func (ex *Exec) pathTerms(v Value) []*Term {
	switch x := v.(type) {
	case Str:
		return x.b
	case Rope:
		var bs []*Term
		for _, sg := range x.segs {
			if sg.opaque {
				panic(unsupported("opaque path"))
			}
			bs = append(bs, sg.b...)
		}
		return bs
	}
	return ex.bytesOf(v)
}

func (ex *Exec) termsEq(a, b []*Term) *Term {
	if len(a) != len(b) {
		return ex.ts.F
	}
	c := ex.ts.T
	for i := range a {
		c = ex.ts.And(c, ex.ts.Eq(a[i], b[i]))
	}
	return c
}

func (ex *Exec) constTerms(s string) []*Term { return ex.strConst(s).b }

// hasPrefixSlash: p == pre or p starts with pre + "/"
func (ex *Exec) underOrEqual(p, pre []*Term) *Term {
	if len(p) < len(pre) {
		return ex.ts.F
	}
	c := ex.termsEq(p[:len(pre)], pre)
	if len(p) == len(pre) {
		return c
	}
	return ex.ts.And(c, ex.ts.Eq(p[len(pre)], ex.ts.Const(8, '/')))
}

func (ex *Exec) fsFind(p []*Term) *fsNode {
	s := ex.fs()
	for _, e := range s.ents {
		if e.removed || len(e.key) != len(p) {
			continue
		}
		if ex.decide(ex.termsEq(p, e.key)) {
			return e
		}
	}
	for _, a := range s.absent {
		if len(a) != len(p) {
			continue
		}
		if ex.decide(ex.termsEq(p, a)) {
			return nil
		}
	}
	for _, r := range s.taken {
		// dir + "/" + name  or  dir + "/" + name + "." + anything
		base := append(append(append([]*Term{}, r.dir...), ex.ts.Const(8, '/')), r.name...)
		if len(p) < len(base) {
			continue
		}
		c := ex.termsEq(p[:len(base)], base)
		if len(p) > len(base) {
			c = ex.ts.And(c, ex.ts.Eq(p[len(base)], ex.ts.Const(8, '.')))
		}
		if ex.decide(c) {
			n := &fsNode{key: p, pre: true}
			ex.fsPut(n)
			return n
		}
	}
	if s.symEx {
		// keep the unknown pre-state consistent: nothing exists below an absent path or below a file
		if par := ex.fsParent(p); par != nil {
			if pn := ex.fsFind(par); pn == nil || !pn.isDir || !pn.pre {
				s.absent = append(s.absent, p)
				return nil
			}
		}
		if s.symMax >= 0 && s.nsym >= s.symMax {
			s.absent = append(s.absent, p)
			return nil
		}
		if ex.decide(ex.nondet(BoolSort)) {
			s.nsym++
			n := &fsNode{key: p, pre: true, sym: true, isDir: ex.decide(ex.nondet(BoolSort))}
			ex.fsPut(n)
			return n
		}
		s.absent = append(s.absent, p)
	}
	return nil
}

func (ex *Exec) fsPut(n *fsNode) {
	s := ex.fs()
	n.id = len(s.ents)
	s.ents = append(s.ents, n)
}

func (ex *Exec) fsParent(p []*Term) []*Term {
	for i := len(p) - 1; i > 0; i-- {
		if ex.decide(ex.ts.Eq(p[i], ex.ts.Const(8, '/'))) {
			return p[:i]
		}
	}
	return nil // parent is "/" (or relative): treated as existing
}

func (s *fsState) openCount() int {
	n := 0
	for _, h := range s.handles {
		if !h.closed {
			n++
		}
	}
	return n
}

var errorT = types.Universe.Lookup("error").Type()

func (ex *Exec) fsErr(kind string) Value { return Iface{t: errorT, v: ex.opaque("fserr:" + kind)} }

type FileInfoObj struct{ node *fsNode }

var fileInfoT = types.NewPointer(types.NewNamed(types.NewTypeName(0, nil, "fileInfoModel", nil), types.NewStruct(nil, nil), nil))

func (ex *Exec) fsEvent(op string, p []*Term, n *fsNode) {
	s := ex.fs()
	s.events = append(s.events, fsEvent{op, p, n})
	if n != nil && (op == "truncate" || op == "write" || op == "remove") {
		n.modified = true
	}
}

func (ex *Exec) ioEOF() Value {
	return ex.load(Ptr{loc: ex.globalLoc(ex.extGlobal("io", "EOF"))}, nil)
}

func (ex *Exec) fsIntrinsic(fn *ssa.Function, name string, args []Value) (Value, bool) {
	switch name {
	case "os.Stat", "os.Lstat":
		p := ex.pathTerms(args[0])
		if n := ex.fsFind(p); n != nil {
			return Tuple{Iface{t: fileInfoT, v: &FileInfoObj{n}}, Iface{}}, true
		}
		return Tuple{Iface{}, ex.fsErr("notexist")}, true
	case "os.IsNotExist":
		e := args[0].(Iface)
		o, _ := e.v.(*Opaque)
		return ex.ts.Bool(o != nil && o.name == "fserr:notexist"), true
	case "os.MkdirAll":
		p := ex.pathTerms(args[0])
		// every proper prefix ending before a '/' must be a directory or absent (then created)
		for i := 1; i <= len(p); i++ {
			if i < len(p) && !ex.decide(ex.ts.Eq(p[i], ex.ts.Const(8, '/'))) {
				continue
			}
			pre := p[:i]
			n := ex.fsFind(pre)
			if n == nil {
				n = &fsNode{key: pre, isDir: true}
				ex.fsPut(n)
				ex.fsEvent("mkdir", pre, n)
			} else if !n.isDir {
				return ex.fsErr("notdir"), true
			}
		}
		return Iface{}, true
	case "os.RemoveAll", "os.Remove":
		s := ex.fs()
		p := ex.pathTerms(args[0])
		n := ex.fsFind(p)
		if n == nil {
			if name == "os.Remove" {
				return ex.fsErr("notexist"), true
			}
			return Iface{}, true
		}
		n.removed = true
		ex.fsEvent("remove", p, n)
		for _, e := range s.ents {
			if !e.removed && len(e.key) > len(p) && ex.decide(ex.underOrEqual(e.key, p)) {
				e.removed = true
				e.modified = true
			}
		}
		return Iface{}, true
	case "os.OpenFile", "os.Open":
		s := ex.fs()
		pt := ex.pathTerms(args[0])
		flag := uint64(0)
		if name == "os.OpenFile" {
			flag = ex.concretize(args[1].(*Term))
		}
		write := flag&3 != 0
		n := ex.fsFind(pt)
		if n == nil {
			if flag&0x40 == 0 { // no O_CREATE
				return Tuple{(*FileObj)(nil), ex.fsErr("notexist")}, true
			}
			if par := ex.fsParent(pt); par != nil {
				pn := ex.fsFind(par)
				if pn == nil {
					return Tuple{(*FileObj)(nil), ex.fsErr("notexist")}, true
				}
				if !pn.isDir {
					return Tuple{(*FileObj)(nil), ex.fsErr("notdir")}, true
				}
			}
			n = &fsNode{key: pt}
			ex.fsPut(n)
			ex.fsEvent("create", pt, n)
		} else {
			if n.isDir && write {
				return Tuple{(*FileObj)(nil), ex.fsErr("isdir")}, true
			}
			if write {
				ex.fsEvent("open-write", pt, n)
			}
			if flag&0x200 != 0 { // O_TRUNC
				n.content = nil
				ex.fsEvent("truncate", pt, n)
			}
		}
		h := &FileObj{node: n, id: len(s.handles), write: write}
		s.handles = append(s.handles, h)
		s.opens++
		return Tuple{h, Iface{}}, true
	case "(*os.File).Close":
		h := fileObjOf(args[0])
		if h == nil {
			return ex.fsErr("invalid"), true
		}
		if h.closed {
			return ex.fsErr("closed"), true
		}
		h.closed = true
		return Iface{}, true
	case "(*os.File).Write":
		h := fileObjOf(args[0])
		if h == nil || h.closed {
			return Tuple{ex.ts.Const(64, 0), ex.fsErr("closed")}, true
		}
		b := ex.bytesOf(args[1])
		c := h.node.content
		for len(c) < h.pos {
			c = append(c, ex.ts.Const(8, 0))
		}
		nc := append(append([]*Term{}, c[:h.pos]...), b...)
		if h.pos+len(b) < len(c) {
			nc = append(nc, c[h.pos+len(b):]...)
		}
		h.node.content = nc
		h.pos += len(b)
		if len(b) > 0 {
			ex.fsEvent("write", h.node.key, h.node)
		}
		return Tuple{ex.ts.Const(64, uint64(len(b))), Iface{}}, true
	case "(*os.File).Read":
		h := fileObjOf(args[0])
		if h == nil || h.closed {
			return Tuple{ex.ts.Const(64, 0), ex.fsErr("closed")}, true
		}
		dst := args[1].(Slice)
		n := int(ex.concretize(dst.len))
		avail := len(h.node.content) - h.pos
		if n == 0 {
			return Tuple{ex.ts.Const(64, 0), Iface{}}, true
		}
		if avail <= 0 {
			return Tuple{ex.ts.Const(64, 0), ex.ioEOF()}, true
		}
		if n > avail {
			n = avail
		}
		for i := 0; i < n; i++ {
			ex.storeElem(dst.arr, ex.ts.Bin(OpAdd, dst.off, ex.ts.Const(64, uint64(i))), h.node.content[h.pos+i])
		}
		h.pos += n
		return Tuple{ex.ts.Const(64, uint64(n)), Iface{}}, true
	case "(*os.File).Seek":
		h := fileObjOf(args[0])
		if h == nil {
			return Tuple{ex.ts.Const(64, 0), ex.fsErr("invalid argument")}, true
		}
		off := int(int64(ex.concretize(args[1].(*Term))))
		wh := ex.concretize(args[2].(*Term))
		switch wh {
		case 0:
			h.pos = off
		case 1:
			h.pos += off
		case 2:
			h.pos = len(h.node.content) + off
		}
		if h.pos < 0 {
			h.pos = 0
			return Tuple{ex.ts.Const(64, 0), ex.fsErr("invalid")}, true
		}
		return Tuple{ex.ts.Const(64, uint64(h.pos)), Iface{}}, true
	case "(*os.File).Truncate":
		h := fileObjOf(args[0])
		if h == nil {
			return ex.fsErr("invalid argument"), true
		}
		sz := int(int64(ex.concretize(args[1].(*Term))))
		if sz < 0 {
			return ex.fsErr("invalid"), true
		}
		c := h.node.content
		for len(c) < sz {
			c = append(c, ex.ts.Const(8, 0))
		}
		if sz != len(h.node.content) {
			ex.fsEvent("truncate", h.node.key, h.node)
		}
		h.node.content = c[:sz]
		return Iface{}, true
	case "(*os.File).Stat":
		h := fileObjOf(args[0])
		if h == nil {
			return Tuple{Iface{}, ex.fsErr("invalid argument")}, true // (*os.File)(nil).Stat() = ErrInvalid
		}
		return Tuple{Iface{t: fileInfoT, v: &FileInfoObj{h.node}}, Iface{}}, true
	}
	if fn.Pkg == ex.pkg {
		s := ex.fs()
		switch fn.Name() {
		case "encodeString", "encodeBytes":
			s.ntok++
			tok := fmt.Sprintf("H%d", s.ntok)
			if pad := ex.bounds["TOKPAD"]; pad > 0 {
				// the real encoding grows with its input; this run models long inputs: every token is pad bytes long
				tok += strings.Repeat("z", int(pad)-len(tok))
			}
			if r, isRope := args[0].(Rope); isRope {
				// a diagnostic text with a rendered symbolic number in it: the number is replaced by a placeholder
				var bs []*Term
				for _, sg := range r.segs {
					if sg.opaque {
						bs = append(bs, ex.ts.Const(8, '?'))
					} else {
						bs = append(bs, sg.b...)
					}
				}
				args[0] = Str{bs}
			}
			s.tokens[tok] = args[0]
			return ex.strConst(tok), true
		case "decodeString":
			if !allConst(ex.bytesOf(args[0])) {
				// arbitrary (symbolic) bytes are not the encoding of anything: the decoder reports an error
				return Tuple{ex.zero(types.NewSlice(types.Typ[types.Byte])), ex.fsErr("decode")}, true
			}
			v, ok := s.tokens[ex.concreteStr(args[0])]
			if !ok {
				return Tuple{ex.zero(types.NewSlice(types.Typ[types.Byte])), ex.fsErr("decode")}, true
			}
			return Tuple{ex.mkByteSlice(ex.bytesOf(v)), Iface{}}, true
		case "verifFSRoot":
			if !s.armed && len(s.ents) == 0 {
				r := fsRootStr
				for i := 1; i <= len(r); i++ {
					if i == len(r) || r[i] == '/' {
						ex.fsPut(&fsNode{key: ex.constTerms(r[:i]), isDir: true, pre: true})
					}
				}
			}
			return ex.strConst(fsRootStr), true
		case "verifFSAddFile":
			ex.fsPut(&fsNode{key: ex.pathTerms(args[0]), content: ex.bytesOf(args[1]), pre: true})
			return nil, true
		case "verifFSAddDir":
			ex.fsPut(&fsNode{key: ex.pathTerms(args[0]), isDir: true, pre: true})
			return nil, true
		case "verifFSTakeAllNames":
			s.taken = append(s.taken, takenRule{ex.pathTerms(args[0]), ex.pathTerms(args[1])})
			return nil, true
		case "verifFSSymbolicExists":
			s.symEx = true
			s.symMax = -1
			if v, ok := ex.bounds["EXISTS"]; ok {
				s.symMax = int(v)
			}
			return nil, true
		case "verifFSBegin":
			s.armed = true
			s.events = nil
			for _, e := range s.ents {
				e.pre = true
				e.modified = false
			}
			return nil, true
		case "verifFSContent":
			n := ex.fsFind(ex.pathTerms(args[0]))
			if n == nil || n.isDir {
				return ex.zero(types.NewSlice(types.Typ[types.Byte])), true
			}
			return ex.mkByteSlice(n.content), true
		case "verifFSKind": // 0 absent 1 file 2 dir
			n := ex.fsFind(ex.pathTerms(args[0]))
			k := uint64(0)
			if n != nil {
				k = 1
				if n.isDir {
					k = 2
				}
			}
			return ex.ts.Const(64, k), true
		case "verifFSEscaped":
			// a mutating event on a path that is neither the destination nor below it
			root := ex.constTerms(fsRootStr)
			r := ex.ts.F
			for _, e := range s.events {
				r = ex.ts.Or(r, ex.ts.Not(ex.underOrEqual(e.path, root)))
			}
			return r, true
		case "verifFSPreTouched":
			for _, e := range s.ents {
				if e.pre && e.modified {
					return ex.ts.T, true
				}
			}
			return ex.ts.F, true
		case "verifFSMutations":
			return ex.ts.Const(64, uint64(len(s.events))), true
		case "verifFSOpenHandles":
			return ex.ts.Const(64, uint64(s.openCount())), true
		}
	}
	switch name {
	case "encoding/json.Marshal":
		s := ex.fs()
		s.ntok++
		tok := fmt.Sprintf("J%d", s.ntok)
		switch src := args[0].(Iface).v.(type) {
		case Ptr:
			s.tokens[tok] = ex.cloneLoc(src.loc.(*StructObj))
		case *MapObj:
			cp := &MapObj{keyT: src.keyT, elemT: src.elemT, ents: append([]MapEntry(nil), src.ents...)}
			s.tokens[tok] = cp
		default:
			panic(unsupported(fmt.Sprintf("json.Marshal of %T", src)))
		}
		return Tuple{ex.mkByteSlice(ex.strConst(tok).b), Iface{}}, true
	case "encoding/json.Unmarshal":
		s := ex.fs()
		v, ok := s.tokens[ex.concreteStr(args[0])]
		if !ok {
			return ex.fsErr("json"), true
		}
		dst := args[1].(Iface).v.(Ptr).loc.(*StructObj)
		if m, isMap := v.(*MapObj); isMap {
			// a JSON object built from a map: every key that names a tagged field overrides that field
			for i := range dst.fields {
				tag := strings.Split(reflect.StructTag(dst.typ.Tag(i)).Get("json"), ",")[0]
				if tag == "" || tag == "-" {
					continue
				}
				for _, e := range m.ents {
					if ex.concreteStr(e.k) != tag {
						continue
					}
					val := e.v
					if ifc, ok := val.(Iface); ok {
						val = ifc.v
					}
					cell, isCell := dst.fields[i].(*Cell)
					if !isCell {
						panic(unsupported("json map value for aggregate field " + tag))
					}
					if tag == "escape_chars" {
						cell.v = ex.escapeTableFromChars(dst.typ.Field(i).Type(), val)
						continue
					}
					switch x := val.(type) {
					case *Term:
						fs := sortOf(dst.typ.Field(i).Type())
						if fs < 0 {
							panic(unsupported("json map value for field " + tag))
						}
						if fs == BoolSort || x.sort == BoolSort {
							cell.v = x
						} else {
							cell.v = ex.ts.SExt(x, fs)
							if x.sort > fs {
								cell.v = ex.ts.Extract(x, int(fs)-1, 0)
							}
						}
					case Str:
						cell.v = x
					default:
						panic(unsupported(fmt.Sprintf("json map value %T for field %s", val, tag)))
					}
				}
			}
			return Iface{}, true
		}
		srcObj, ok := v.(*StructObj)
		if !ok {
			return ex.fsErr("json"), true
		}
		if !types.Identical(srcObj.typ, dst.typ) {
			// the document was produced from another record type (a message taken for one of another kind): as in
			// encoding/json, members are matched by name, unknown ones are ignored, a member of the wrong kind is an error
			tagOf := func(st *types.Struct, i int) string {
				t := strings.Split(reflect.StructTag(st.Tag(i)).Get("json"), ",")[0]
				if t == "" {
					t = st.Field(i).Name()
				}
				return t
			}
			var jerr Value = Iface{}
			for i := range dst.fields {
				ti := tagOf(dst.typ, i)
				if ti == "-" {
					continue
				}
				for j := range srcObj.fields {
					if tagOf(srcObj.typ, j) != ti {
						continue
					}
					if !types.Identical(srcObj.typ.Field(j).Type(), dst.typ.Field(i).Type()) {
						jerr = ex.fsErr("json: cannot unmarshal member " + ti)
						continue
					}
					ex.copyInto(dst.fields[i], ex.cloneLoc(srcObj.fields[j]))
				}
			}
			return jerr, true
		}
		if len(srcObj.fields) != len(dst.fields) {
			return ex.fsErr("json"), true
		}
		for i := range dst.fields {
			tag := reflect.StructTag(dst.typ.Tag(i)).Get("json")
			if tag == "-" {
				continue
			}
			if strings.Contains(tag, ",omitempty") && ex.jsonEmpty(srcObj.fields[i]) {
				continue // the encoder left the member out: the decoder keeps what the destination held
			}
			ex.copyInto(dst.fields[i], ex.cloneLoc(srcObj.fields[i]))
		}
		return Iface{}, true
	}
	return nil, false
}

// jsonEmpty: encoding/json's "empty value" (false, 0, "", nil) for a scalar member; decided with the solver if symbolic
func (ex *Exec) jsonEmpty(loc Loc) bool {
	c, ok := loc.(*Cell)
	if !ok {
		return false
	}
	switch v := c.v.(type) {
	case *Term:
		if v.sort == BoolSort {
			return ex.decide(ex.ts.Not(v))
		}
		return ex.decide(ex.ts.Eq(v, ex.ts.Const(v.sort, 0)))
	case Str:
		return len(v.b) == 0
	case Ptr:
		return v.isNil()
	}
	return false
}

// fileObjOf: the open-file object behind an *os.File value; nil for a nil *os.File
func fileObjOf(v Value) *FileObj {
	h, _ := v.(*FileObj)
	return h
}

func minI(a, b int) int {
	if a < b {
		return a
	}
	return b
}

// ---- environment capture for native replay: the pre-existing file-system state under the model

type FSPre struct {
	Path    string `json:"path"` // hex
	Dir     bool   `json:"dir"`
	Content string `json:"content"` // hex
}

// envTerms returns the terms whose model values describe the environment (stub FS pre-state).
func (ex *Exec) envTerms() []*Term {
	s, ok := ex.side["fs"].(*fsState)
	if !ok {
		return nil
	}
	var ts []*Term
	for _, e := range s.ents {
		if !e.sym {
			continue
		}
		for _, t := range e.key {
			if !t.IsConst() {
				ts = append(ts, t)
			}
		}
	}
	return ts
}

func (ex *Exec) buildEnv(val func(*Term) uint64) []FSPre {
	s, ok := ex.side["fs"].(*fsState)
	if !ok {
		return nil
	}
	var out []FSPre
	for _, e := range s.ents {
		if !e.sym {
			continue
		}
		p := make([]byte, len(e.key))
		for i, t := range e.key {
			p[i] = byte(val(t))
		}
		out = append(out, FSPre{Path: fmt.Sprintf("%x", p), Dir: e.isDir})
	}
	sort.Slice(out, func(i, j int) bool { return len(out[i].Path) < len(out[j].Path) })
	return out
}


// escapeTableFromChars is the JSON stub's counterpart of escapeTable.UnmarshalJSON + escapeCharsToTable for the one
// field whose value is a nested list: [[char, leader+code], ...] with latin-1 characters written as UTF-8 strings.
// It applies the same validity rules (one byte, two bytes, leader first). The real decoder runs in the native replay.
func (ex *Exec) escapeTableFromChars(fieldT types.Type, val Value) Value {
	st := fieldT.(*types.Pointer).Elem()
	so := ex.newLoc(st).(*StructObj)
	byteT := types.Typ[types.Byte]
	ptrT := types.NewPointer(byteT)
	mk := func() *ArrayObj { return ex.newArray(ptrT, 256) }
	esc, unesc := mk(), mk()
	for i := 0; i < 256; i++ {
		esc.vals[i], unesc.vals[i] = Ptr{}, Ptr{}
	}
	latin1 := func(v Value) []byte {
		bs := ex.bytesOf(v)
		var out []byte
		for k := 0; k < len(bs); k++ {
			if !bs[k].IsConst() {
				panic(unsupported("symbolic escape_chars"))
			}
			b := byte(bs[k].val)
			if b < 0x80 {
				out = append(out, b)
			} else if b&0xE0 == 0xC0 && k+1 < len(bs) {
				out = append(out, (b&0x1F)<<6|byte(bs[k+1].val)&0x3F)
				k++
			} else {
				panic(unsupported("escape_chars outside latin-1"))
			}
		}
		return out
	}
	outer, ok := val.(Slice)
	if !ok {
		panic(unsupported(fmt.Sprintf("escape_chars value %T", val)))
	}
	n := int(ex.concretize(outer.len))
	for k := 0; k < n; k++ {
		pair := ex.loadElem(outer.arr, ex.ts.Bin(OpAdd, outer.off, ex.ts.Const(64, uint64(k)))).(Slice)
		if ex.concretize(pair.len) != 2 {
			panic(unsupported("escape_chars pair"))
		}
		a := latin1(ex.loadElem(pair.arr, pair.off))
		b := latin1(ex.loadElem(pair.arr, ex.ts.Bin(OpAdd, pair.off, ex.ts.Const(64, 1))))
		if len(a) != 1 || len(b) != 2 || b[0] != 0xee {
			panic(unsupported("escape_chars invalid (the real decoder would reject it)"))
		}
		ca, cb := &Cell{ex.ts.Const(8, uint64(a[0]))}, &Cell{ex.ts.Const(8, uint64(b[1]))}
		esc.vals[a[0]] = Ptr{loc: cb}
		unesc.vals[b[1]] = Ptr{loc: ca}
	}
	c256 := ex.ts.Const(64, 256)
	z := ex.ts.Const(64, 0)
	for i := 0; i < so.typ.NumFields(); i++ {
		switch so.typ.Field(i).Name() {
		case "totalCount":
			so.fields[i].(*Cell).v = ex.ts.Const(64, uint64(n))
		case "escapeCodes":
			so.fields[i].(*Cell).v = Slice{esc, z, c256, c256}
		case "unescapeCodes":
			so.fields[i].(*Cell).v = Slice{unesc, z, c256, c256}
		}
	}
	ex.stubsUsed["json: escape_chars -> escapeTable (stub of UnmarshalJSON/escapeCharsToTable; real decoder in the native replay)"]++
	return Ptr{loc: so}
}
