package trzsz

// C03 — stream reassembly is independent of chunking.
// Every harness builds a stream of N fully symbolic bytes, cuts it at a symbolic subset of the N-1 positions into
// non-empty reads, feeds the chunks to the real trzszBuffer and compares each operation's outcome with a reference
// parser that works on the concatenated stream with a single cursor (written here from the property text).

// zzRefReadLine parses one line from s starting at pos. status: 0 ok, 1 interrupted, 2 incomplete.
func zzRefReadLine(s []byte, pos int, junk bool) (line []byte, status int, newPos int) {
	var acc []byte
	for i := pos; i < len(s); i++ {
		c := s[i]
		if c == '\n' {
			if junk && len(acc) > 0 && acc[len(acc)-1] == '\r' {
				acc = acc[:len(acc)-1]
				continue
			}
			return acc, 0, i + 1
		}
		if c == 3 {
			return nil, 1, i + 1
		}
		acc = append(acc, c)
	}
	return nil, 2, len(s)
}

// zzFeed creates the stream and enqueues it under an arbitrary segmentation into non-empty chunks.
func zzFeed(n int) (*trzszBuffer, []byte) {
	stream := make([]byte, n)
	for i := range stream {
		stream[i] = verifNondetByte()
	}
	b := newTrzszBuffer()
	start := 0
	for i := 0; i < n; i++ {
		if i == n-1 || verifNondetBool() {
			b.addBuffer(stream[start : i+1])
			start = i + 1
		}
	}
	return b, stream
}

func zzSameBytes(got, want []byte, label string) {
	verifAssert(len(got) == len(want), label+": length")
	for i := range want {
		verifAssert(got[i] == want[i], label+": content")
	}
}

// one line read (strict or junk tolerant) over all streams and segmentations
func zzH_C03_line() {
	b, stream := zzFeed(verifBound("N"))
	junk := verifNondetBool()
	ref, st, _ := zzRefReadLine(stream, 0, junk)
	if st == 2 {
		verifExpectBlock(2)
	} else {
		verifExpectBlock(1)
	}
	line, err := b.readLine(junk, nil)
	verifExpectBlock(0)
	if st == 1 {
		verifAssert(err != nil, "interrupt expected")
		verifReach("interrupted")
		return
	}
	verifAssert(err == nil, "no error expected")
	zzSameBytes(line, ref, "line")
	verifReach("line-ok")
}

// a sequence of OPS operations (strict line / junk line / sized block) against the single-cursor reference
func zzH_C03_ops() {
	n := verifBound("N")
	b, stream := zzFeed(n)
	pos := 0
	for op := 0; op < verifBound("OPS"); op++ {
		kind := verifNondetRange(0, 2)
		if kind == 2 {
			size := verifNondetRange(0, n)
			if pos+size > n {
				verifExpectBlock(2)
			} else {
				verifExpectBlock(1)
			}
			blk, err := b.readBinary(size, nil)
			verifExpectBlock(0)
			verifAssert(err == nil, "block: no error expected")
			zzSameBytes(blk, stream[pos:pos+size], "block")
			pos += size
			verifReach("block-ok")
			continue
		}
		junk := kind == 1
		ref, st, np := zzRefReadLine(stream, pos, junk)
		if st == 2 {
			verifExpectBlock(2)
		} else {
			verifExpectBlock(1)
		}
		line, err := b.readLine(junk, nil)
		verifExpectBlock(0)
		if st == 1 {
			verifAssert(err != nil, "interrupt expected")
			verifReach("interrupted")
			return // the cursor after an interrupt is unspecified
		}
		verifAssert(err == nil, "line: no error expected")
		zzSameBytes(line, ref, "line")
		pos = np
		verifReach("line-ok")
	}
	// whatever the operations consumed, the unread rest of the stream is still there, once and in order
	var rest []byte
	for k := 0; k <= n; k++ {
		buf := b.popBuffer()
		if buf == nil {
			break
		}
		rest = append(rest, buf...)
	}
	zzSameBytes(rest, stream[pos:], "rest")
	verifReach("ops-done")
}

// the relay's use: after one successful read, popBuffer hands out exactly the unread rest of the stream, in order
func zzH_C03_pop() {
	n := verifBound("N")
	b, stream := zzFeed(n)
	junk := verifNondetBool()
	ref, st, np := zzRefReadLine(stream, 0, junk)
	verifAssume(st == 0)
	verifExpectBlock(1)
	line, err := b.readLine(junk, nil)
	verifExpectBlock(0)
	verifAssert(err == nil, "line: no error expected")
	zzSameBytes(line, ref, "line")
	var rest []byte
	for k := 0; k <= n; k++ {
		buf := b.popBuffer()
		if buf == nil {
			break
		}
		verifAssert(len(buf) > 0, "pop: empty chunk")
		rest = append(rest, buf...)
	}
	verifAssert(b.popBuffer() == nil, "pop: more chunks than bytes")
	zzSameBytes(rest, stream[np:], "pop")
	verifReach("pop-ok")
}
