package trzsz

// Harness API, symbolic build: these functions have no bodies; the executor (vsym) intercepts calls to them.
// The native replay build uses verif_native.go instead, so that harness files are identical in both builds.

func verifNondetByte() byte
func verifNondetInt() int
func verifNondetBool() bool
func verifNondetRange(lo, hi int) int
func verifBound(name string) int
func verifAssume(c bool)
func verifAssert(c bool, label string)
func verifReach(label string)
func verifProbe(key string, val int)
func verifExpectBlock(mode int)
func verifBlockForever()
func verifQuiesce()
func verifLiveThreads() int
func verifAdvanceTime()
func verifFSAddFile(path string, content []byte)
func verifFSAddDir(path string)
func verifFSSymbolicExists()
func verifFSEvents() int
func verifFSEventPath(i int) string
func verifFSEventPre(i int) bool
func verifFSKind(path string) int
func verifFSContent(path string) []byte
func verifFSOpenHandles() int
func verifAbstractName(k int) string
func verifOpaqueASCII(lo, hi int) string
func verifDisplayWidth(s string) int
