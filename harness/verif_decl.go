package trzsz

// Harness API, symbolic build: these functions have no bodies; the executor (vsym) intercepts calls to them.
// The native replay build uses verif_native.go instead, so that harness files are identical in both builds.

func verifNondetByte() byte
func verifNondetInt() int
func verifNondetBool() bool
func verifNondetRange(lo, hi int) int
func verifBound(name string) int
func verifBoundOr(name string, def int) int // optional bound of a shared harness
func verifAssume(c bool)
func verifAssert(c bool, label string)
func verifReach(label string)
func verifProbe(key string, val int)
func verifExpectBlock(mode int)
func verifBlockForever()
func verifQuiesce()
func verifLiveThreads() int
func verifAssertNoLiveThreads(label string)
func verifAssertNoLiveThreadsExcept(label string, allowedSite string)
func verifAdvanceMs(ms int) // a short stretch of time passes: only timers whose duration has run out expire
func verifAdvanceTime()
func verifSymbolicClock()
func verifHelperExit(code int)
func verifHelperOutput(b []byte)
func verifHelperCloseOutput() // the helper closes its stdout without exiting
func verifHelperState() int

// stub file system (symbolic) / sandbox directory (native); see engine/fs.go
func verifFSRoot() string                         // the destination directory; creates the sandbox
func verifFSAddFile(path string, content []byte)  // pre-existing file
func verifFSAddDir(path string)                   // pre-existing directory
func verifFSTakeAllNames(dir, name string)        // name, name.0, name.1, ... all exist as files in dir
func verifFSSymbolicExists()                      // every path not declared so far may or may not exist (solver's choice)
func verifFSBegin()                               // everything present now is "pre-existing"; start recording
func verifFSEscaped() bool                        // something outside the destination was created, written, truncated or removed
func verifFSPreTouched() bool                     // something pre-existing was truncated, written or removed
func verifFSMutations() int                       // number of mutating events since verifFSBegin (compare with 0 only)
func verifFSKind(path string) int                 // 0 absent, 1 file, 2 directory
func verifFSContent(path string) []byte
func verifFSOpenHandles() int
func verifAbstractName(k int) string
func verifOpaqueASCII(lo, hi int) string
func verifDisplayWidth(s string) int
