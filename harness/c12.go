package trzsz

// C12 — no input from the other side can crash the process.
// One harness per consumer of a peer-controlled number or byte string. Numbers are arbitrary 64-bit values (they
// travel through the real line framing as numeric tokens), byte strings are short and fully symbolic. The oracle is
// implicit: a Go panic on any path, or an allocation above 2 GiB on the strength of one length field, is a violation.

import (
	"crypto/md5"
	"encoding/json"
	"fmt"
	"strconv"
)

type zzSink12 struct{ n int }

func (s *zzSink12) Write(p []byte) (int, error) { s.n += len(p); return len(p), nil }

func zzTransfer12() *trzszTransfer {
	t := newTransfer(&zzSink12{}, nil, false, nil)
	t.transferConfig.Timeout = 0
	return t
}

func zzSymBytes12(n int) []byte {
	b := make([]byte, n)
	for i := range b {
		b[i] = verifNondetByte()
	}
	return b
}

// #DATA:<n> with any n, protocol 1 receiver (recvData -> readBinary -> unescapeData)
func zzH_C12_recvData() {
	t := zzTransfer12()
	t.transferConfig.Binary = true
	t.transferConfig.MaxBufSize = int64(verifNondetInt()) // the bufsize member of the peer's CFG: any integer
	n := verifNondetInt()
	t.buffer.addBuffer([]byte("#DATA:" + strconv.FormatInt(int64(n), 10) + "\n"))
	t.buffer.addBuffer([]byte("abcdefgh"))
	t.stopped.Store(false)
	go func() { verifQuiesce(); t.stopTransferringFiles(false) }() // whatever it waits for never arrives: the user stops
	_, err := t.recvData()
	if err != nil {
		verifReach("error")
	} else {
		verifReach("data")
	}
}

// #DATA:<n> with any n, pipeline receiver (pipelineRecvBinaryData)
func zzH_C12_recvBinaryData() {
	t := zzTransfer12()
	t.transferConfig.Binary = true
	t.transferConfig.MaxBufSize = int64(verifNondetInt()) // the bufsize member of the peer's CFG: any integer
	t.transferConfig.Protocol = verifNondetRange(2, 4)
	n := verifNondetInt()
	t.buffer.addBuffer([]byte("#DATA:" + strconv.FormatInt(int64(n), 10) + "\n"))
	t.buffer.addBuffer([]byte("abcdefgh"))
	go func() { verifQuiesce(); t.stopTransferringFiles(false) }()
	_, _, err := t.pipelineRecvBinaryData()
	if err != nil {
		verifReach("error")
	} else {
		verifReach("data")
	}
}

type zzFile12 struct{ zzWriter12 }
type zzWriter12 struct{}

// resume hash exchange: HASH records with any step
func zzH_C12_recvPrefixHash() {
	root := verifFSRoot()
	verifFSAddFile(root+"/f", []byte("0123456789"))
	verifFSBegin()
	t := zzTransfer12()
	t.transferConfig.Protocol = 4
	t.transferConfig.Overwrite = true
	js, err := json.Marshal(&sourceFile{PathID: 0, RelPath: []string{"f"}, Size: 10})
	verifAssume(err == nil)
	t.buffer.addBuffer([]byte("#NAME:" + encodeString(string(js)) + "\n"))
	content := []byte("0123456789")
	for k := 0; k < 2; k++ {
		h := &prefixHash{Step: int64(verifNondetInt()), Hash: "00"}
		if k == 0 && verifNondetBool() {
			// a first record that matches the local prefix (so that the proven prefix is non-empty afterwards)
			m := verifNondetRange(1, 10)
			hs := md5.New()
			hs.Write(content[:m])
			h = &prefixHash{Step: int64(m), Hash: fmt.Sprintf("%x", hs.Sum(nil))}
		}
		hj, err := json.Marshal(h)
		verifAssume(err == nil)
		t.buffer.addBuffer([]byte("#HASH:" + encodeString(string(hj)) + "\n"))
	}
	oj, err := json.Marshal(&prefixHash{Over: true})
	verifAssume(err == nil)
	t.buffer.addBuffer([]byte("#HASH:" + encodeString(string(oj)) + "\n"))
	f, _, err := t.recvFileNameV3(root, nil)
	if f != nil {
		f.Close()
	}
	if err != nil {
		verifReach("error")
	} else {
		verifReach("resumed")
	}
}

// per-chunk ack "<len>/<step>" and final ack "<step>" with any values, progress display attached
func zzH_C12_acks() {
	t := zzTransfer12()
	t.transferConfig.Protocol = verifNondetRange(2, 4)
	length, step := verifNondetInt(), verifNondetInt()
	t.buffer.addBuffer([]byte("#SUCC:" + strconv.FormatInt(int64(length), 10) + "/" + strconv.FormatInt(int64(step), 10) + "\n"))
	l, s, _, err := t.pipelineRecvCurrentAck()
	if err == nil {
		verifAssert(l == int64(length), "ack length misparsed")
		verifAssert(s == int64(step), "ack step misparsed")
		p := newTextProgressBar(&zzSink12{}, int32(verifNondetRange(5, 200)), 0, "", "")
		p.onNum(1)
		p.onName("f")
		p.onSize(int64(verifNondetRange(0, 1000)))
		p.onStep(s) // what pipelineShowProgress does with it, in a goroutine without recover
		verifReach("ack")
	} else {
		verifReach("error")
	}
}

// short garbage where a number is expected
func zzH_C12_garbageNumber() {
	t := zzTransfer12()
	t.transferConfig.Binary = true
	g := zzSymBytes12(verifNondetRange(0, verifBound("G")))
	for _, c := range g {
		verifAssume(c != '\n')
	}
	t.buffer.addBuffer(append(append([]byte("#DATA:"), g...), '\n'))
	t.buffer.addBuffer([]byte("abcdefgh"))
	go func() { verifQuiesce(); t.stopTransferringFiles(false) }()
	_, err := t.recvData()
	if err != nil {
		verifReach("error")
	} else {
		verifReach("data")
	}
}

// arbitrary lines through the typed-line check, tmux junk stripping and the Windows reader
func zzH_C12_lines() {
	t := zzTransfer12()
	mode := verifNondetRange(0, 2)
	if mode == 1 {
		t.transferConfig.TmuxOutputJunk = true
	} else if mode == 2 {
		t.windowsProtocol = true
	}
	line := zzSymBytes12(verifBound("L"))
	if mode == 2 {
		line = append(line, '!')
	} else {
		line = append(line, '\n')
	}
	t.buffer.addBuffer(line)
	go func() { verifQuiesce(); t.stopTransferringFiles(false) }()
	_, err := t.recvCheck("SUCC", false, nil)
	if err != nil {
		verifReach("error")
	} else {
		verifReach("line")
	}
}

// the Windows reader on lines put together from the pieces its state machine distinguishes (line feed, carriage return,
// cursor-positioning and other escape sequences with and without digits, protocol letters, arbitrary bytes), in any
// order and from an empty line buffer on: an error or a line, never a crash
func zzH_C12_winTokens() {
	t := zzTransfer12()
	t.windowsProtocol = true
	var line []byte
	for i := 0; i < verifBound("TOK"); i++ {
		switch verifNondetRange(0, 6) {
		case 0:
			line = append(line, '\n')
		case 1:
			line = append(line, '\r')
		case 2:
			line = append(line, 0x1b, '[', '5', 'H')
		case 3:
			line = append(line, 0x1b, '[', 'H')
		case 4:
			line = append(line, 0x1b, '[', '5', 'C')
		case 5:
			line = append(line, zzSymBytes12(1)...)
		default:
			line = append(line, '#')
		}
	}
	line = append(line, '!')
	t.buffer.addBuffer(line)
	go func() { verifQuiesce(); t.stopTransferringFiles(false) }()
	_, err := t.recvCheck("SUCC", false, nil)
	if err != nil {
		verifReach("error")
	} else {
		verifReach("line")
	}
}

// the pane width the other side announces in its configuration (tmux_pane_width, any 32-bit value) becomes the width
// of the progress line: rendering one update must not allocate without bound on the strength of that one field
func zzH_C12_paneWidth() {
	sink := &zzSink12{}
	pane := int32(verifNondetInt())
	p := newTextProgressBar(sink, 80, pane, "", "")
	p.fileName, p.fileCount, p.fileIdx = "f", 1, 1
	p.fileSize, p.fileStep = 100, 50
	out := p.getProgressText("50%", "50.0 B", "--- B/s", "--- ETA")
	sink.n += len(out)
	verifReach("rendered")
}

// the size the other side announces (SIZE line, any 64-bit value) with a progress display attached: either the
// transfer ends with an error or the display is left in a possible state (a size of zero or more, position within it)
func zzH_C12_sizeField() {
	t := zzTransfer12()
	size := verifNondetInt()
	t.buffer.addBuffer([]byte("#SIZE:" + strconv.FormatInt(int64(size), 10) + "\n"))
	p := newTextProgressBar(&zzSink12{}, 80, 0, "", "")
	p.onNum(1)
	p.onName("f")
	got, err := t.recvFileSize(p)
	if err != nil {
		verifReach("error")
		return
	}
	verifAssert(got == int64(size), "size misparsed")
	p.onStep(0)
	p.onDone()
	verifAssert(p.fileSize >= 0, "progress display holds a negative file size announced by the other side")
	verifAssert(p.fileStep >= 0 && p.fileStep <= p.fileSize, "progress display holds a position outside the file")
	verifReach("size")
}

// escaped data with arbitrary bytes against the escape-all table
func zzH_C12_unescape() {
	t := zzMkTable12()
	data := zzSymBytes12(verifBound("L"))
	dstLen := verifNondetRange(0, 3)
	var dst []byte
	if dstLen > 0 {
		dst = make([]byte, dstLen)
	}
	_, _, err := unescapeData(data, t, dst)
	if err != nil {
		verifReach("error")
	} else {
		verifReach("decoded")
	}
}

func zzMkTable12() *escapeTable {
	t := &escapeTable{totalCount: 3, escapeCodes: make([]*byte, 256), unescapeCodes: make([]*byte, 256)}
	for _, p := range [][2]byte{{0xee, 0xee}, {0x7e, 0x31}, {0x02, 'A'}} {
		a, b := p[0], p[1]
		t.escapeCodes[a] = &b
		t.unescapeCodes[b] = &a
	}
	return t
}

// terminal output scanned by the detectors: arbitrary bytes around the literals they look for
func zzH_C12_detectors() {
	n := verifBound("N")
	buf := zzSymBytes12(n)
	switch verifNondetRange(0, 3) {
	case 1:
		buf = append(buf, "::TRZSZ:TRANSFER:"...)
		buf = append(buf, zzSymBytes12(n)...)
		for len(buf) < 24 {
			buf = append(buf, ' ')
		}
	case 2:
		buf = append(buf, "**\x18B0"...)
		buf = append(buf, zzSymBytes12(n)...)
	case 3:
		buf = append(buf, "\x1b]52;c;"...)
		buf = append(buf, zzSymBytes12(n)...)
	}
	det := newTrzszDetector(verifNondetBool(), verifNondetBool())
	out, _ := det.detectTrzsz(buf, verifNondetBool())
	verifAssert(len(out) >= len(buf), "detector shortened the output")
	detectZmodem(buf)
	verifReach("scanned")
}


// the OSC52 scanner of the output pump on arbitrary bytes after the introducer, split across reads at any position
func zzH_C12_osc52() {
	n := verifBound("N")
	buf := zzSymBytes12(verifNondetRange(0, 2))
	buf = append(buf, "\x1b]52;"...)
	buf = append(buf, zzSymBytes12(verifNondetRange(0, n))...)
	f := &TrzszFilter{}
	f.options.EnableOSC52 = true
	cut := verifNondetRange(0, len(buf))
	f.detectOSC52(buf[:cut])
	f.detectOSC52(buf[cut:])
	verifReach("osc52-scanned")
}


// typed/pasted input scanned for dragged paths: arbitrary bytes through the three platform scanners never crash them
func zzH_C12_drag() {
	verifFSRoot() // "/w" exists in the stub file system, so short inputs can name an existing directory
	buf := zzSymBytes12(verifNondetRange(0, verifBound("N")))
	switch verifNondetRange(0, 3) {
	case 0:
		detectDragFiles(buf)
	case 1:
		detectDragFilesOnLinux(buf)
	case 2:
		detectDragFilesOnMacOS(buf)
	case 3:
		detectDragFilesOnWindows(buf)
	}
	verifReach("drag-scanned")
}


// an archive entry header inside the data stream with ANY size member (negative, huge), followed by more stream bytes
func zzH_C12_archiveHeader() {
	root := verifFSRoot()
	verifFSBegin()
	t := newTransfer(&zzSink12{}, nil, false, nil)
	t.transferConfig.Timeout = 0
	t.transferConfig.Protocol = 4
	t.transferConfig.Directory = true
	top := &sourceFile{PathID: 0, RelPath: []string{"d"}, IsDir: true, Archive: true}
	w, _, err := t.createDirOrFile(root, top, false)
	verifAssume(err == nil)
	verifAssume(w != nil)
	ent := &sourceFile{PathID: 0, RelPath: []string{"d", "f"}, IsDir: verifNondetBool()}
	ent.Size = int64(verifNondetInt())
	js, err := ent.marshalSourceFile()
	verifAssume(err == nil)
	stream := []byte(encodeString(js) + "\n")
	stream = append(stream, zzSymBytes12(verifNondetRange(0, verifBound("N")))...)
	cut := verifNondetRange(1, len(stream))
	err = writeAll(w, stream[:cut])
	if err == nil && cut < len(stream) {
		err = writeAll(w, stream[cut:])
	}
	w.Close()
	if err == nil {
		verifReach("header-accepted")
	} else {
		verifReach("header-refused")
	}
}


// the relay's own parser of handshake lines (ACT from the client, CFG from the server), plain and Windows framing, on
// arbitrary short lines: an error, never a crash (the handshake worker has no recover)
func zzH_C12_relayLines() {
	line := zzSymBytes12(verifNondetRange(0, verifBound("L")))
	for _, c := range line {
		verifAssume(c != '\n')
	}
	b := newTrzszBuffer()
	typ := []string{"ACT", "CFG"}[verifNondetRange(0, 1)]
	// the reader may go on waiting (a line of noise only is skipped): it runs as a thread of its own
	if verifNondetBool() {
		b.addBuffer(append(append([]byte{}, line...), '!', '\n'))
		go recvStringForWindows(b, typ)
	} else {
		junk := verifNondetBool()
		b.addBuffer(append(append([]byte{}, line...), '\n'))
		go recvStringFromBuffer(b, typ, junk)
	}
	verifQuiesce()
	verifReach("relay-line-parsed")
}
