package trzsz

func verifNondetByte() byte
func verifNondetInt() int
func verifNondetBool() bool
func verifNondetRange(lo, hi int) int
func verifAssume(bool)
func verifAssert(bool, string)
func verifReach(string)
func verifExpectBlock(int)

func zzH_C12_readBinary() {
	b := newTrzszBuffer()
	b.addBuffer([]byte("abc"))
	size := verifNondetInt()
	data, err := b.readBinary(size, nil)
	_ = data
	_ = err
	verifReach("returned")
}
