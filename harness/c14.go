package trzsz

import "encoding/json"

func verifNondetBool() bool
func verifNondetInt() int
func verifNondetRange(lo, hi int) int
func verifAssume(bool)
func verifAssert(bool, string)
func verifReach(string)

func zzLine(typ string, v any) []byte {
	js, _ := json.Marshal(v)
	return []byte("#" + typ + ":" + encodeString(string(js)) + "\n")
}

func zzH_C14_handshake() {
	r := &TrzszRelay{
		osStdinChan:    make(chan []byte, 10),
		osStdoutChan:   make(chan []byte, 10),
		bypassTmuxChan: make(chan []byte, 10),
		stdinBuffer:    newTrzszBuffer(),
		stdoutBuffer:   newTrzszBuffer(),
		trigger:        &trzszTrigger{mode: 'R'},
	}
	if verifNondetBool() {
		r.tmuxMode = tmuxNormalMode
	}
	r.tmuxPaneWidth = int32(verifNondetRange(-1, 300))
	r.relayStatus.Store(kRelayHandshaking)
	act := &transferAction{Lang: "go", Version: "1.1.8", Newline: "\n"}
	act.Confirm = verifNondetBool()
	act.Protocol = verifNondetInt()
	act.SupportBinary = verifNondetBool()
	act.SupportDirectory = verifNondetBool()
	act.TunnelConnected = false
	act.SupportFork = verifNondetBool()
	cfg := &transferConfig{Newline: "\n", Timeout: 20}
	cfg.Binary = verifNondetBool()
	cfg.Directory = verifNondetBool()
	cfg.Overwrite = verifNondetBool()
	cfg.Quiet = verifNondetBool()
	cfg.Protocol = verifNondetInt()
	cfg.MaxBufSize = int64(verifNondetInt())
	cfg.TmuxOutputJunk = verifNondetBool()
	cfg.TmuxPaneColumns = int32(verifNondetRange(-1, 300))
	r.stdinBuffer.addBuffer(zzLine("ACT", act))
	r.stdoutBuffer.addBuffer(zzLine("CFG", cfg))
	r.handshake()
	// what reached the server
	verifAssert(len(r.osStdinChan) == 1, "exactly one ACT forwarded")
	fwd := <-r.osStdinChan
	s, err := decodeRelayBufferString("ACT", fwd[:len(fwd)-1])
	verifAssert(err == nil, "forwarded ACT decodes")
	var act2 transferAction
	verifAssert(json.Unmarshal([]byte(s), &act2) == nil, "forwarded ACT parses")
	verifAssert(!act2.SupportBinary, "binary offered to the server without a tunnel")
	verifAssert(act2.Protocol <= kProtocolVersion, "protocol above what the relay understands")
	verifAssert(act2.Protocol == act.Protocol || act.Protocol > kProtocolVersion, "protocol changed although within range")
	verifAssert(act2.Confirm == act.Confirm && act2.SupportDirectory == act.SupportDirectory && act2.SupportFork == act.SupportFork, "other action fields changed")
	if !act.Confirm {
		verifAssert(r.relayStatus.Load() == kRelayStandBy, "refused transfer leaves the relay out of standby")
		verifReach("refused")
		return
	}
	verifAssert(r.relayStatus.Load() == kRelayTransferring, "confirmed handshake must end transferring")
	out := r.bypassTmuxChan
	verifAssert(len(out) == 1, "exactly one CFG forwarded")
	fwd = <-out
	s, err = decodeRelayBufferString("CFG", fwd[:len(fwd)-1])
	verifAssert(err == nil, "forwarded CFG decodes")
	var cfg2 transferConfig
	verifAssert(json.Unmarshal([]byte(s), &cfg2) == nil, "forwarded CFG parses")
	verifAssert(cfg2.TmuxOutputJunk == (cfg.TmuxOutputJunk || r.tmuxMode == tmuxNormalMode), "junk flag")
	if cfg.TmuxPaneColumns > 0 {
		verifAssert(cfg2.TmuxPaneColumns == cfg.TmuxPaneColumns, "server pane width dropped")
	} else if r.tmuxPaneWidth > 0 {
		verifAssert(cfg2.TmuxPaneColumns == r.tmuxPaneWidth, "relay pane width not added")
	}
	verifAssert(cfg2.Binary == cfg.Binary && cfg2.Directory == cfg.Directory && cfg2.Overwrite == cfg.Overwrite && cfg2.Quiet == cfg.Quiet && cfg2.Protocol == cfg.Protocol && cfg2.MaxBufSize == cfg.MaxBufSize && cfg2.Timeout == cfg.Timeout, "server settings dropped")
	verifReach("confirmed")
}
