package trzsz

// C14 — a relay only narrows what the ends negotiate, and recovers after every transfer.

import "encoding/json"

func zzLine14(typ string, v interface{}) []byte {
	js, _ := json.Marshal(v)
	return []byte("#" + typ + ":" + encodeString(string(js)) + "\n")
}

func zzRelay14() *TrzszRelay {
	r := &TrzszRelay{
		osStdinChan:  make(chan []byte, 10),
		osStdoutChan: make(chan []byte, 10),
		stdinBuffer:  newTrzszBuffer(),
		stdoutBuffer: newTrzszBuffer(),
		trigger:      &trzszTrigger{mode: 'R'},
	}
	r.bypassTmuxChan = make(chan []byte, 10)
	return r
}

// the ACT the relay forwards and the CFG it forwards, for every client capability set and every server configuration
func zzH_C14_handshake() {
	r := zzRelay14()
	if verifNondetBool() {
		r.tmuxMode = tmuxNormalMode
	}
	r.tmuxPaneWidth = int32(verifNondetRange(-1, 300))
	r.relayStatus.Store(kRelayHandshaking)
	if r.trigger == nil {
		r.trigger = &trzszTrigger{}
	}
	r.trigger.winServer = verifNondetBool()
	act := &transferAction{Lang: "go", Version: "1.1.8", Newline: "\n"}
	act.Confirm = verifNondetBool()
	act.Protocol = verifNondetInt()
	act.SupportBinary = verifNondetBool()
	act.SupportDirectory = verifNondetBool()
	act.TunnelConnected = verifNondetBool()
	act.SupportFork = verifNondetBool()
	win := r.trigger.winServer
	actEnd, cfgEnd := "\n", "\n"
	if win {
		actEnd = "!\n" // the action for a Windows server always ends the Windows way
		if !act.TunnelConnected {
			act.Newline = "!\n"
			cfgEnd = "!\n"
		}
	}
	// the server's configuration as the servers build it: a JSON object with only the members that apply
	cfg := &transferConfig{Newline: "\n"}
	cfg.Timeout = verifNondetInt() // -t N: zero or less means "never time out"
	verifAssume(cfg.Timeout >= -1)
	verifAssume(cfg.Timeout <= 100000)
	cfg.Binary = verifNondetBool()
	cfg.Directory = verifNondetBool()
	cfg.Overwrite = verifNondetBool()
	cfg.Quiet = verifNondetBool()
	cfg.Fork = verifNondetBool()
	cfg.Protocol = verifNondetInt()
	cfg.MaxBufSize = int64(verifNondetInt())
	cfg.TmuxOutputJunk = verifNondetBool()
	cfg.TmuxPaneColumns = int32(verifNondetRange(-1, 300))
	cfgMap := map[string]interface{}{"lang": "go", "bufsize": cfg.MaxBufSize, "timeout": cfg.Timeout, "protocol": cfg.Protocol}
	if cfg.Binary {
		cfgMap["binary"] = true
	}
	if cfg.Directory {
		cfgMap["directory"] = true
	}
	if cfg.Overwrite {
		cfgMap["overwrite"] = true
	}
	if cfg.Quiet {
		cfgMap["quiet"] = true
	}
	if cfg.Fork {
		cfgMap["fork"] = true
	}
	if cfg.TmuxOutputJunk {
		cfgMap["tmux_output_junk"] = true
	}
	cfgMap["tmux_pane_width"] = cfg.TmuxPaneColumns
	actJS, _ := json.Marshal(act)
	cfgJS, _ := json.Marshal(cfgMap)
	r.stdinBuffer.addBuffer([]byte("#ACT:" + encodeString(string(actJS)) + actEnd))
	r.stdoutBuffer.addBuffer([]byte("#CFG:" + encodeString(string(cfgJS)) + cfgEnd))
	r.handshake()

	verifAssert(len(r.osStdinChan) == 1, "not exactly one ACT forwarded to the server")
	fwd := <-r.osStdinChan
	s, err := decodeRelayBufferString("ACT", zzStripEnd14(fwd))
	verifAssert(err == nil, "forwarded ACT does not decode")
	var act2 transferAction
	verifAssert(json.Unmarshal([]byte(s), &act2) == nil, "forwarded ACT does not parse")
	if !act.TunnelConnected {
		verifAssert(!act2.SupportBinary, "binary mode offered to the server without a tunnel")
	} else {
		verifAssert(act2.SupportBinary == act.SupportBinary, "binary capability changed although a tunnel is in use")
	}
	verifAssert(act2.Protocol <= kProtocolVersion, "protocol raised above what the relay understands")
	if act.Protocol <= kProtocolVersion {
		verifAssert(act2.Protocol == act.Protocol, "protocol changed although within range")
	} else {
		verifAssert(act2.Protocol == kProtocolVersion, "protocol not clamped to the relay's own version")
	}
	verifAssert(act2.Confirm == act.Confirm, "confirm flag changed")
	verifAssert(act2.SupportDirectory == act.SupportDirectory, "directory capability changed")
	verifAssert(act2.SupportFork == act.SupportFork, "fork capability changed")
	verifAssert(act2.TunnelConnected == act.TunnelConnected, "tunnel flag changed")
	verifAssert(act2.Newline == act.Newline, "newline changed")
	if !act.Confirm {
		verifAssert(r.relayStatus.Load() == kRelayStandBy, "refused transfer leaves the relay out of standby")
		verifAssert(len(r.bypassTmuxChan) == 0, "CFG forwarded although the client refused")
		verifAssert(!r.tunnelConnected.Load(), "tunnel state kept after the relay returned to standby")
		verifReach("refused")
		return
	}
	verifAssert(r.relayStatus.Load() == kRelayTransferring, "confirmed handshake does not end in transferring")
	verifAssert(len(r.bypassTmuxChan) == 1, "not exactly one CFG forwarded to the client")
	fwd = <-r.bypassTmuxChan
	s, err = decodeRelayBufferString("CFG", zzStripEnd14(fwd))
	verifAssert(err == nil, "forwarded CFG does not decode")
	cfg2 := transferConfig{Timeout: 20, Newline: "\n", MaxBufSize: 10 * 1024 * 1024} // what a client holds before the CFG arrives
	verifAssert(json.Unmarshal([]byte(s), &cfg2) == nil, "forwarded CFG does not parse")
	verifAssert(cfg2.TmuxOutputJunk == (cfg.TmuxOutputJunk || r.tmuxMode == tmuxNormalMode), "tmux junk flag")
	if cfg.TmuxPaneColumns > 0 {
		verifAssert(cfg2.TmuxPaneColumns == cfg.TmuxPaneColumns, "the server's pane width was overwritten")
	} else if r.tmuxPaneWidth > 0 {
		verifAssert(cfg2.TmuxPaneColumns == r.tmuxPaneWidth, "the relay's pane width was not added")
	} else {
		verifAssert(cfg2.TmuxPaneColumns == cfg.TmuxPaneColumns, "pane width invented")
	}
	verifAssert(cfg2.Binary == cfg.Binary, "server setting dropped: binary")
	verifAssert(cfg2.Directory == cfg.Directory, "server setting dropped: directory")
	verifAssert(cfg2.Overwrite == cfg.Overwrite, "server setting dropped: overwrite")
	verifAssert(cfg2.Quiet == cfg.Quiet, "server setting dropped: quiet")
	verifAssert(cfg2.Fork == cfg.Fork, "server setting dropped: fork")
	verifAssert(cfg2.Protocol == cfg.Protocol, "server setting changed: protocol")
	verifAssert(cfg2.MaxBufSize == cfg.MaxBufSize, "server setting changed: bufsize")
	verifAssert(cfg2.Timeout == cfg.Timeout, "server setting changed: timeout")
	// the line ending the client is told to use is the one a direct transfer would use: "!\n" for a Windows server
	// reached in-band, the plain one otherwise (a connected tunnel carries plain lines)
	wantNL := "\n"
	if r.trigger.winServer && !act.TunnelConnected {
		wantNL = "!\n"
	}
	verifAssert(cfg2.Newline == wantNL, "the line ending forwarded to the client differs from a direct transfer's")
	verifReach("confirmed")
}

// a forwarded line without its terminator ("\n" or the Windows "!\n")
func zzStripEnd14(b []byte) []byte {
	b = b[:len(b)-1]
	if len(b) > 0 && b[len(b)-1] == '!' {
		b = b[:len(b)-1]
	}
	return b
}

type zzGate14 struct{ ch chan []byte }

func (g *zzGate14) Read(p []byte) (int, error) {
	b := <-g.ch
	return copy(p, b), nil
}

var zzMarkers14 = []string{"#EXIT:", "#FAIL:", "#fail:"}

// while transferring: an end marker in either direction (or a lone Ctrl-C from the client) returns the relay to
// standby with the tunnel state cleared, the chunk itself passing through; afterwards the next trigger is handled
func zzH_C14_markers() {
	r := zzRelay14()
	r.bypassTmuxChan = r.osStdoutChan
	cin, sout := &zzGate14{make(chan []byte, 4)}, &zzGate14{make(chan []byte, 4)}
	r.clientIn, r.serverOut = cin, sout
	r.relayStatus.Store(kRelayTransferring)
	r.tunnelConnected.Store(verifNondetBool())
	go r.wrapInput()
	go r.wrapOutput()
	var chunk []byte
	kind := verifNondetRange(0, 4)
	fromClient := verifNondetBool()
	pre, post := verifNondetRange(0, 2), verifNondetRange(0, 2)
	switch kind {
	case 3:
		verifAssume(fromClient)
		chunk = []byte{3}
	case 4: // ordinary transfer data: no marker
		for i := 0; i < 1+pre+post; i++ {
			c := verifNondetByte()
			verifAssume(c != '#')
			verifAssume(c != 3)
			chunk = append(chunk, c)
		}
	default:
		for i := 0; i < pre; i++ {
			chunk = append(chunk, verifNondetByte())
		}
		chunk = append(chunk, zzMarkers14[kind]...)
		for i := 0; i < post; i++ {
			chunk = append(chunk, verifNondetByte())
		}
	}
	want := make([]byte, len(chunk))
	copy(want, chunk)
	var got []byte
	if fromClient {
		cin.ch <- chunk
		verifQuiesce()
		verifAssert(len(r.osStdinChan) == 1, "chunk not forwarded to the server")
		got = <-r.osStdinChan
	} else {
		sout.ch <- chunk
		verifQuiesce()
		verifAssert(len(r.osStdoutChan) == 1, "chunk not forwarded to the client")
		got = <-r.osStdoutChan
	}
	verifAssert(len(got) == len(want), "chunk altered while transferring")
	for i := range want {
		verifAssert(got[i] == want[i], "chunk altered while transferring")
	}
	if kind == 4 {
		verifAssert(r.relayStatus.Load() == kRelayTransferring, "relay left the transfer on ordinary data")
		verifReach("data")
		return
	}
	verifAssert(r.relayStatus.Load() == kRelayStandBy, "relay did not return to standby at the end of the transfer")
	verifAssert(!r.tunnelConnected.Load(), "tunnel state kept after the transfer ended")
	verifReach("ended")
	// the next transfer through the same relay is recognised again
	sout.ch <- []byte("::TRZSZ:TRANSFER:R:1.1.5:0000000000300\r\n")
	verifQuiesce()
	verifAssert(r.relayStatus.Load() == kRelayHandshaking, "next trigger not handled after the relay returned to standby")
	verifAssert(len(r.osStdoutChan) == 1, "next trigger not forwarded")
	verifReach("again")
}

// two transfers through the same relay: whatever the first one negotiated (Windows newline, tunnel, refusal), the
// second handshake works again and is not shaped by stale state
func zzH_C14_twice() {
	r := zzRelay14()
	for round := 0; round < 2; round++ {
		r.relayStatus.Store(kRelayHandshaking) // what the output pump does on the next trigger
		nl := "\n"
		if verifNondetBool() {
			nl = "!\n"
		}
		act := &transferAction{Lang: "go", Version: "1.1.8", Newline: nl, Protocol: 4, SupportBinary: true, SupportDirectory: true}
		act.Confirm = verifNondetBool()
		act.TunnelConnected = verifNondetBool()
		cfg := &transferConfig{Newline: nl, Timeout: 20, Protocol: 4, MaxBufSize: 1024}
		actLine := zzLine14("ACT", act) // the client always terminates its ACT with LF
		cfgLine := zzLine14("CFG", cfg)
		if nl == "!\n" && !act.TunnelConnected {
			cfgLine = append(cfgLine[:len(cfgLine)-1], '!', '\n') // a server told about a Windows client frames with "!\n"
		}
		r.stdinBuffer.addBuffer(actLine)
		if act.Confirm {
			r.stdoutBuffer.addBuffer(cfgLine)
		}
		verifExpectBlock(1)
		r.handshake()
		verifExpectBlock(0)
		verifAssert(len(r.osStdinChan) == 1, "not exactly one ACT forwarded to the server")
		<-r.osStdinChan
		if act.Confirm {
			verifAssert(len(r.bypassTmuxChan) == 1, "CFG not forwarded to the client")
			for len(r.bypassTmuxChan) > 0 {
				<-r.bypassTmuxChan
			}
			verifAssert(r.relayStatus.Load() == kRelayTransferring, "confirmed handshake does not end in transferring")
			r.resetToStandby(kRelayTransferring) // the transfer ends (#EXIT: seen by a pump)
		} else {
			verifAssert(r.relayStatus.Load() == kRelayStandBy, "refused transfer leaves the relay out of standby")
		}
		verifAssert(!r.tunnelConnected.Load(), "tunnel state kept after the transfer ended")
		verifReach("round")
	}
	verifReach("twice")
}


// a handshake that fails inside the relay while the client is on the tunnel (the server refuses the action, or its
// configuration line is unreadable): both ends are told why over the tunnel, where they are listening — nothing is
// typed into the server's terminal or printed on the client's — and the relay is back in standby
func zzH_C14_failTunnel() {
	r := zzRelay14()
	r.relayStatus.Store(kRelayHandshaking)
	tun := &tunnelRelay{clientBufChan: make(chan []byte, 10), serverBufChan: make(chan []byte, 10)}
	r.tunnelRelay.Store(tun)
	act := &transferAction{Lang: "go", Version: "1.1.8", Newline: "\n", Confirm: true, Protocol: 4, TunnelConnected: true}
	act.SupportBinary = verifNondetBool()
	act.SupportDirectory = verifNondetBool()
	actJS, _ := json.Marshal(act)
	r.stdinBuffer.addBuffer([]byte("#ACT:" + encodeString(string(actJS)) + "\n"))
	if verifNondetBool() {
		r.stdoutBuffer.addBuffer([]byte("#FAIL:" + encodeString("The client doesn't support transfer directory") + "\n"))
	} else {
		r.stdoutBuffer.addBuffer([]byte("#CFG:" + encodeString("not json") + "\n"))
	}
	r.handshake()
	verifAssert(r.relayStatus.Load() == kRelayStandBy, "failed handshake leaves the relay out of standby")
	toServer, toClient := 0, 0
	for len(tun.clientBufChan) > 0 {
		b := <-tun.clientBufChan
		if zzHasPrefix14(b, "#FAIL:") {
			toServer++
		}
	}
	for len(tun.serverBufChan) > 0 {
		b := <-tun.serverBufChan
		if zzHasPrefix14(b, "#FAIL:") {
			toClient++
		}
	}
	verifAssert(toServer == 1, "the server was not told over the tunnel why the handshake failed")
	verifAssert(toClient == 1, "the client was not told over the tunnel why the handshake failed")
	verifAssert(len(r.osStdinChan) == 0, "something was typed into the server's terminal although the tunnel is in use")
	verifAssert(len(r.osStdoutChan) == 0 && len(r.bypassTmuxChan) == 0, "something was printed on the client's terminal although the tunnel is in use")
	verifReach("fail-over-tunnel")
}

func zzHasPrefix14(b []byte, p string) bool { return len(b) >= len(p) && string(b[:len(p)]) == p }
