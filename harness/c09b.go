package trzsz

func verifNondetByte() byte
func verifNondetBool() bool
func verifNondetRange(lo, hi int) int
func verifAssume(bool)
func verifAssert(bool, string)
func verifReach(string)
func verifFSAddDir(path string)
func verifFSEvents() int
func verifFSEventPath(i int) string

type zzNop9 struct{}

func (zzNop9) Write(p []byte) (int, error) { return len(p), nil }

func zzInsideOrEqual(dest, p string) bool {
	if len(p) < len(dest) {
		return false
	}
	if p[:len(dest)] != dest {
		return false
	}
	return len(p) == len(dest) || p[len(dest)] == '/'
}

func zzSymName(max int) string {
	n := verifNondetRange(1, max)
	b := make([]byte, n)
	for i := range b {
		b[i] = verifNondetByte()
	}
	return string(b)
}

// directory mode: peer-supplied path list of 2 elements
func zzH_C09_dir() {
	verifFSAddDir("/d")
	t := newTransfer(zzNop9{}, nil, false, nil)
	t.transferConfig.Directory = true
	t.transferConfig.Overwrite = verifNondetBool()
	src := &sourceFile{PathID: 0, RelPath: []string{zzSymName(2), zzSymName(2)}, IsDir: verifNondetBool()}
	f, _, err := t.createDirOrFile("/d", src, true)
	_ = f
	for i := 0; i < verifFSEvents(); i++ {
		verifAssert(zzInsideOrEqual("/d", verifFSEventPath(i)), "created outside the destination")
	}
	if err == nil {
		verifReach("created")
	} else {
		verifReach("refused")
	}
}
