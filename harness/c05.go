package trzsz

import (
	"bytes"
	"io"
)

func verifNondetByte() byte
func verifNondetBool() bool
func verifNondetRange(lo, hi int) int
func verifAssume(bool)
func verifAssert(bool, string)
func verifReach(string)
func verifQuiesce()
func verifBlockForever()

type zzOnce struct {
	chunk []byte
	done  bool
}

func (r *zzOnce) Read(p []byte) (int, error) {
	if !r.done {
		r.done = true
		return copy(p, r.chunk), nil
	}
	verifBlockForever()
	return 0, io.EOF
}

type zzCap struct {
	got    []byte
	writes int
}

func (w *zzCap) Write(p []byte) (int, error) {
	w.got = append(w.got, p...)
	w.writes++
	return len(p), nil
}
func (w *zzCap) Close() error { return nil }

const zzL = 24

func zzContains(hay []byte, needle string) bool {
	for s := 0; s+len(needle) <= len(hay); s++ {
		m := true
		for k := 0; k < len(needle); k++ {
			if hay[s+k] != needle[k] {
				m = false
				break
			}
		}
		if m {
			return true
		}
	}
	return false
}

func zzH_C05_out() {
	chunk := make([]byte, zzL)
	for i := range chunk {
		chunk[i] = verifNondetByte()
	}
	// near-miss: everything but a complete trigger literal / zmodem header start
	verifAssume(!bytes.Contains(chunk, []byte("::TRZSZ:TRANSFER:")))
	verifAssume(!bytes.Contains(chunk, []byte("**\x18B0")))
	want := make([]byte, zzL)
	copy(want, chunk)
	out, in := &zzCap{}, &zzCap{}
	f := &TrzszFilter{clientOut: out, serverIn: in, serverOut: &zzOnce{chunk: chunk}}
	f.options.EnableZmodem = verifNondetBool()
	go f.wrapOutput()
	verifQuiesce()
	verifAssert(len(out.got) == zzL, "output bytes lost or duplicated")
	if len(out.got) == zzL {
		for i := range want {
			verifAssert(out.got[i] == want[i], "output byte changed")
		}
	}
	verifAssert(len(in.got) == 0, "wrapper wrote to the server on its own")
	verifAssert(f.transfer.Load() == nil, "transfer started without a trigger")
	verifReach("passthrough")
}
