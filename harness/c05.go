package trzsz

// C05 — the wrapper is transparent whenever no transfer is in progress.

import (
	"bytes"
	"io"
	"sync/atomic"
)

// zzFeed5: the wrapper's upstream reader: delivers the chunks, then stays silent.
type zzFeed5 struct {
	chunks [][]byte
	idx    int
}

func (r *zzFeed5) Read(p []byte) (int, error) {
	if r.idx >= len(r.chunks) {
		verifBlockForever()
		return 0, io.EOF
	}
	n := copy(p, r.chunks[r.idx])
	r.idx++
	return n, nil
}

type zzCap5 struct {
	got    []byte
	writes int
}

func (w *zzCap5) Write(p []byte) (int, error) {
	w.got = append(w.got, p...)
	w.writes++
	return len(p), nil
}
func (w *zzCap5) Close() error { return nil }

func zzSame5(got, want []byte, label string) {
	verifAssert(len(got) == len(want), label+": bytes lost or duplicated")
	if len(got) == len(want) {
		for i := range want {
			verifAssert(got[i] == want[i], label+": byte changed")
		}
	}
}

// remote output short of a genuine trigger / zmodem header reaches the local terminal unmodified, once, in order
func zzH_C05_out() {
	l := verifBound("L")
	chunk := make([]byte, l)
	for i := range chunk {
		chunk[i] = verifNondetByte()
	}
	// anything but a complete trigger literal or a zmodem header start
	verifAssume(!bytes.Contains(chunk, []byte("::TRZSZ:TRANSFER:")))
	verifAssume(!bytes.Contains(chunk, []byte("**\x18B0")))
	want := make([]byte, l)
	copy(want, chunk)
	out, in := &zzCap5{}, &zzCap5{}
	chunks := [][]byte{chunk}
	if verifBound("CUT") != 0 {
		cut := verifNondetRange(1, l)
		if cut < l {
			chunks = [][]byte{chunk[:cut], chunk[cut:]}
		}
	}
	f := &TrzszFilter{clientOut: out, serverIn: in, serverOut: &zzFeed5{chunks: chunks}}
	f.options.EnableZmodem = verifNondetBool()
	f.options.EnableOSC52 = verifBound("OSC") != 0
	go f.wrapOutput()
	verifQuiesce()
	zzSame5(out.got, want, "to terminal")
	verifAssert(len(in.got) == 0, "wrapper wrote to the remote side on its own")
	verifAssert(f.transfer.Load() == nil, "transfer started without a trigger")
	verifAssert(f.zmodem.Load() == nil, "zmodem session started without a header")
	verifReach("passthrough")
}

// near-miss trigger text: a trigger with one byte of its literal changed passes through untouched
func zzH_C05_nearMiss() {
	lit := []byte("\x1b7\x07::TRZSZ:TRANSFER:S:1.1.5:0000000000100\r\n")
	k := verifNondetRange(3, 19) // position inside "::TRZSZ:TRANSFER:"
	c := verifNondetByte()
	verifAssume(c != lit[k])
	lit[k] = c
	verifAssume(!bytes.Contains(lit, []byte("::TRZSZ:TRANSFER:")))
	want := make([]byte, len(lit))
	copy(want, lit)
	out, in := &zzCap5{}, &zzCap5{}
	f := &TrzszFilter{clientOut: out, serverIn: in, serverOut: &zzFeed5{chunks: [][]byte{lit}}}
	f.options.EnableZmodem = verifNondetBool()
	go f.wrapOutput()
	verifQuiesce()
	zzSame5(out.got, want, "to terminal")
	verifAssert(len(in.got) == 0, "wrapper wrote to the remote side on its own")
	verifReach("near-miss")
}

// typed input reaches the remote side unmodified, once, in order (no session, no drag detection)
func zzH_C05_in() {
	l := verifBound("L")
	chunk := make([]byte, l)
	for i := range chunk {
		chunk[i] = verifNondetByte()
	}
	want := make([]byte, l)
	copy(want, chunk)
	out, in := &zzCap5{}, &zzCap5{}
	f := &TrzszFilter{clientOut: out, serverIn: in}
	f.options.EnableZmodem = verifNondetBool()
	var drag atomic.Bool
	cut := verifNondetRange(1, l)
	f.sendInput(chunk[:cut], &drag)
	if cut < l {
		f.sendInput(chunk[cut:], &drag)
	}
	zzSame5(in.got, want, "to remote")
	verifAssert(len(out.got) == 0, "typed input echoed locally by the wrapper")
	verifReach("input")
}

// a finished-transfer transcript contains the whole trigger text but is not a genuine trigger: it passes through
// unmodified, the bytes in front of it included, and starts nothing
func zzH_C05_lookalike() {
	t := zzMakeTrigger(zzPrefix6(verifBound("PREFIX")), true)
	buf := t.buf
	words := []string{"#CFG:", "Saved", "Cancelled", "Stopped", "Interrupted"}
	w := words[verifNondetRange(0, 4)]
	gap := verifNondetRange(0, 3)
	for i := 0; i < gap; i++ {
		buf = append(buf, ' ')
	}
	buf = append(buf, w...)
	buf = append(buf, '\r', '\n')
	want := zzClone6(buf)
	out, in := &zzCap5{}, &zzCap5{}
	f := &TrzszFilter{clientOut: out, serverIn: in, serverOut: &zzFeed5{chunks: [][]byte{buf}}}
	f.options.EnableZmodem = verifNondetBool()
	go f.wrapOutput()
	verifQuiesce()
	zzSame5(out.got, want, "to terminal")
	verifAssert(f.trigger == nil, "scroll-back of a finished transfer started a transfer")
	verifAssert(len(in.got) == 0, "wrapper wrote to the remote side on its own")
	verifReach("transcript")
}
