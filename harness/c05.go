package trzsz

// C05 — the wrapper is transparent whenever no transfer is in progress.

import (
	"bytes"
	"io"
	"sync/atomic"
)

// zzFeed5: the wrapper's upstream reader: delivers the chunks, then stays silent.
type zzFeed5 struct {
	chunks [][]byte
	idx    int
}

func (r *zzFeed5) Read(p []byte) (int, error) {
	if r.idx >= len(r.chunks) {
		verifBlockForever()
		return 0, io.EOF
	}
	n := copy(p, r.chunks[r.idx])
	r.idx++
	return n, nil
}

type zzCap5 struct {
	got    []byte
	writes int
}

func (w *zzCap5) Write(p []byte) (int, error) {
	w.got = append(w.got, p...)
	w.writes++
	return len(p), nil
}
func (w *zzCap5) Close() error { return nil }

func zzSame5(got, want []byte, label string) {
	verifAssert(len(got) == len(want), label+": bytes lost or duplicated")
	if len(got) == len(want) {
		for i := range want {
			verifAssert(got[i] == want[i], label+": byte changed")
		}
	}
}

// remote output short of a genuine trigger / zmodem header reaches the local terminal unmodified, once, in order
func zzH_C05_out() {
	l := verifBound("L")
	chunk := make([]byte, l)
	for i := range chunk {
		chunk[i] = verifNondetByte()
	}
	// anything but a complete trigger literal or a zmodem header start
	verifAssume(!bytes.Contains(chunk, []byte("::TRZSZ:TRANSFER:")))
	verifAssume(!bytes.Contains(chunk, []byte("**\x18B0")))
	want := make([]byte, l)
	copy(want, chunk)
	out, in := &zzCap5{}, &zzCap5{}
	chunks := [][]byte{chunk}
	if verifBound("CUT") != 0 {
		cut := verifNondetRange(1, l)
		if cut < l {
			chunks = [][]byte{chunk[:cut], chunk[cut:]}
		}
	}
	f := &TrzszFilter{clientOut: out, serverIn: in, serverOut: &zzFeed5{chunks: chunks}}
	f.options.EnableZmodem = verifNondetBool()
	f.options.EnableOSC52 = verifBound("OSC") != 0
	go f.wrapOutput()
	verifQuiesce()
	zzSame5(out.got, want, "to terminal")
	verifAssert(len(in.got) == 0, "wrapper wrote to the remote side on its own")
	verifAssert(f.transfer.Load() == nil, "transfer started without a trigger")
	verifAssert(f.zmodem.Load() == nil, "zmodem session started without a header")
	verifReach("passthrough")
}

// near-miss trigger text: a trigger with one byte of its literal changed passes through untouched
func zzH_C05_nearMiss() {
	lit := []byte("\x1b7\x07::TRZSZ:TRANSFER:S:1.1.5:0000000000100\r\n")
	k := verifNondetRange(3, 19) // position inside "::TRZSZ:TRANSFER:"
	c := verifNondetByte()
	verifAssume(c != lit[k])
	lit[k] = c
	verifAssume(!bytes.Contains(lit, []byte("::TRZSZ:TRANSFER:")))
	want := make([]byte, len(lit))
	copy(want, lit)
	out, in := &zzCap5{}, &zzCap5{}
	f := &TrzszFilter{clientOut: out, serverIn: in, serverOut: &zzFeed5{chunks: [][]byte{lit}}}
	f.options.EnableZmodem = verifNondetBool()
	go f.wrapOutput()
	verifQuiesce()
	zzSame5(out.got, want, "to terminal")
	verifAssert(len(in.got) == 0, "wrapper wrote to the remote side on its own")
	verifReach("near-miss")
}

// typed input reaches the remote side unmodified, once, in order (no session, no drag detection)
func zzH_C05_in() {
	l := verifBound("L")
	chunk := make([]byte, l)
	for i := range chunk {
		chunk[i] = verifNondetByte()
	}
	want := make([]byte, l)
	copy(want, chunk)
	out, in := &zzCap5{}, &zzCap5{}
	f := &TrzszFilter{clientOut: out, serverIn: in}
	f.options.EnableZmodem = verifNondetBool()
	var drag atomic.Bool
	cut := verifNondetRange(1, l)
	f.sendInput(chunk[:cut], &drag)
	if cut < l {
		f.sendInput(chunk[cut:], &drag)
	}
	zzSame5(in.got, want, "to remote")
	verifAssert(len(out.got) == 0, "typed input echoed locally by the wrapper")
	verifReach("input")
}

// a finished-transfer transcript contains the whole trigger text but is not a genuine trigger: it passes through
// unmodified, the bytes in front of it included, and starts nothing
func zzH_C05_lookalike() {
	t := zzMakeTrigger(zzPrefix6(verifBound("PREFIX")), true)
	buf := t.buf
	words := []string{"#CFG:", "Saved", "Cancelled", "Stopped", "Interrupted"}
	w := words[verifNondetRange(0, 4)]
	gap := verifNondetRange(0, 3)
	for i := 0; i < gap; i++ {
		buf = append(buf, ' ')
	}
	buf = append(buf, w...)
	buf = append(buf, '\r', '\n')
	want := zzClone6(buf)
	out, in := &zzCap5{}, &zzCap5{}
	f := &TrzszFilter{clientOut: out, serverIn: in, serverOut: &zzFeed5{chunks: [][]byte{buf}}}
	f.options.EnableZmodem = verifNondetBool()
	go f.wrapOutput()
	verifQuiesce()
	zzSame5(out.got, want, "to terminal")
	verifAssert(f.trigger == nil, "scroll-back of a finished transfer started a transfer")
	verifAssert(len(in.got) == 0, "wrapper wrote to the remote side on its own")
	verifReach("transcript")
}

// ---- a whole download session through the wrapper: trigger -> handler -> ACT/CFG -> files -> EXIT, against the real
// server-side logic of tsz; afterwards the wrapper is transparent again (session pointer cleared on every exit)

type zzQueue5 struct{ ch chan []byte }

func (q *zzQueue5) Read(p []byte) (int, error) {
	b := <-q.ch
	return copy(p, b), nil
}
func (q *zzQueue5) Write(p []byte) (int, error) {
	c := make([]byte, len(p))
	copy(c, p)
	q.ch <- c
	return len(p), nil
}

type zzToServer5 struct {
	peer   *trzszTransfer
	direct []byte // what reached the remote side while no transfer claimed the stream
	filter *TrzszFilter
}

func (w *zzToServer5) Write(p []byte) (int, error) {
	c := make([]byte, len(p))
	copy(c, p)
	w.peer.addReceivedData(c, false)
	return len(p), nil
}
func (w *zzToServer5) Close() error { return nil }

func zzH_C05_session() {
	root := verifFSRoot()
	sroot := root[:len(root)-4] + "src"
	verifFSAddDir(sroot)
	n := verifNondetRange(0, verifBound("SIZE"))
	content := make([]byte, n)
	for i := range content {
		content[i] = verifNondetByte()
		verifAssume(content[i] >= 'A') // base64 mode with the identity coder stub (symbolic build)
		verifAssume(content[i] <= 'Z')
	}
	verifFSAddFile(sroot+"/a", content)
	verifFSBegin()

	toClient := &zzQueue5{make(chan []byte, 200)}
	term := &zzCap5{}
	V := newTransfer(toClient, nil, false, nil) // the server's transfer object writes to the wrapper's remote-output side
	V.transferConfig.Timeout = 0
	toServer := &zzToServer5{peer: V}
	f := &TrzszFilter{clientOut: term, serverIn: toServer, serverOut: toClient}
	f.options.TerminalColumns = 80
	f.defaultDownloadPath.Store(&root)
	go f.wrapOutput()

	outcome := verifNondetRange(0, 2) // 0 normal, 1 the server fails after the handshake, 2 the user stops the transfer
	args := &tszArgs{}
	args.Timeout = 0
	args.Bufsize.Size = 1024
	args.Quiet = verifNondetBool()
	args.Overwrite = verifNondetBool()
	files := []*sourceFile{{PathID: 0, AbsPath: sroot + "/a", RelPath: []string{"a"}, Size: int64(n)}}
	if outcome == 1 {
		files[0].AbsPath = sroot + "/missing" // the server cannot open its file
	}
	var serr error
	sdone := false
	go func() {
		serr = sendFiles(V, files, args, tmuxModeType(0), 0)
		if serr != nil {
			V.serverError(serr)
		}
		sdone = true
	}()
	toClient.ch <- []byte("\x1b7\x07::TRZSZ:TRANSFER:S:1.1.5:0000000000100\r\n")
	verifQuiesce()
	if outcome == 2 {
		if t := f.transfer.Load(); t != nil {
			t.stopTransferringFiles(false)
		}
	}
	for i := 0; i < 6 && !(sdone && f.transfer.Load() == nil); i++ {
		verifAdvanceTime()
		verifQuiesce()
	}
	verifAssert(sdone, "the server side did not finish")
	verifAssert(f.transfer.Load() == nil, "the wrapper still holds the session after the transfer ended")
	if outcome == 0 {
		verifAssert(serr == nil, "transfer failed over a fault-free connection")
		got := verifFSContent(root + "/a")
		verifAssert(len(got) == n, "downloaded file length")
		for i := 0; i < n && i < len(got); i++ {
			verifAssert(got[i] == content[i], "downloaded file content")
		}
		verifReach("downloaded")
	} else {
		verifReach("ended-abnormally")
	}
	// transparent again: remote output reaches the terminal unmodified
	before := len(term.got)
	probe := []byte{verifNondetByte(), verifNondetByte(), verifNondetByte()}
	for _, c := range probe {
		verifAssume(c != ':')
	}
	toClient.ch <- probe
	verifQuiesce()
	verifAssert(len(term.got) == before+3, "remote output not forwarded after the transfer ended")
	if len(term.got) == before+3 {
		for i := range probe {
			verifAssert(term.got[before+i] == probe[i], "remote output altered after the transfer ended")
		}
	}
	verifReach("transparent-again")
}

// the upload direction: trigger of trz -> handler -> uploadFiles against the real server-side logic of trz (recvFiles)
func zzH_C05_uploadSession() {
	root := verifFSRoot() // the server's destination directory
	sroot := root[:len(root)-4] + "src"
	verifFSAddDir(sroot)
	n := verifNondetRange(0, verifBound("SIZE"))
	content := make([]byte, n)
	for i := range content {
		content[i] = verifNondetByte()
		verifAssume(content[i] >= 'A')
		verifAssume(content[i] <= 'Z')
	}
	verifFSAddFile(sroot+"/a", content)
	hadOld := verifNondetBool()
	if hadOld {
		verifFSAddFile(root+"/a", []byte("old"))
	}
	verifFSBegin()
	toClient := &zzQueue5{make(chan []byte, 200)}
	term := &zzCap5{}
	V := newTransfer(toClient, nil, false, nil)
	V.transferConfig.Timeout = 0
	f := &TrzszFilter{clientOut: term, serverIn: &zzToServer5{peer: V}, serverOut: toClient}
	f.options.TerminalColumns = 80
	f.oneTimeUploadFiles = []string{sroot + "/a"}
	go f.wrapOutput()
	args := &trzArgs{Path: root}
	args.Timeout = 0
	args.Bufsize.Size = 1024
	args.Quiet = verifNondetBool()
	args.Overwrite = verifNondetBool()
	var serr error
	sdone := false
	go func() {
		serr = recvFiles(V, args, tmuxModeType(0), 0)
		if serr != nil {
			V.serverError(serr)
		}
		sdone = true
	}()
	toClient.ch <- []byte("\x1b7\x07::TRZSZ:TRANSFER:R:1.1.5:0000000000100\r\n")
	verifQuiesce()
	for i := 0; i < 6 && !(sdone && f.transfer.Load() == nil); i++ {
		verifAdvanceTime()
		verifQuiesce()
	}
	verifAssert(sdone, "the server side did not finish")
	verifAssert(serr == nil, "upload failed over a fault-free connection")
	verifAssert(f.transfer.Load() == nil, "the wrapper still holds the session after the transfer ended")
	name := "a"
	if hadOld && !args.Overwrite {
		name = "a.0"
		old := verifFSContent(root + "/a")
		verifAssert(string(old) == "old", "pre-existing file modified without -y")
	}
	got := verifFSContent(root + "/" + name)
	verifAssert(len(got) == n, "uploaded file length")
	for i := 0; i < n && i < len(got); i++ {
		verifAssert(got[i] == content[i], "uploaded file content")
	}
	verifReach("uploaded")
}


// an OSC52 clipboard sequence that is still open at the end of one read, followed by reads of any length: whatever the
// clipboard scanner keeps of the earlier read, the bytes forwarded to the terminal are exactly the bytes read
func zzH_C05_oscSplit() {
	var c1 []byte
	for i := verifNondetRange(0, 1); i > 0; i-- {
		p := verifNondetByte()
		verifAssume(p != 0x1b && p != '*' && p != ':')
		c1 = append(c1, p)
	}
	c1 = append(c1, "\x1b]52;"...)
	for i := verifNondetRange(0, verifBound("K")); i > 0; i-- {
		p := verifNondetByte()
		verifAssume(p != 0x1b && p != 7 && p != '*' && p != ':')
		c1 = append(c1, p)
	}
	chunks := [][]byte{c1}
	want := append([]byte{}, c1...)
	for r := 0; r < verifBound("READS"); r++ {
		n := verifNondetRange(1, len(c1)+verifBound("EXTRA"))
		c := make([]byte, n)
		for i := range c {
			c[i] = verifNondetByte()
			verifAssume(c[i] != '*' && c[i] != ':') // no trigger, no zmodem header
			if i > 0 {
				verifAssume(c[i-1] != 0x1b || c[i] == '\\') // an escape is the string terminator only
			}
		}
		verifAssume(c[n-1] != 0x1b)
		chunks = append(chunks, c)
		want = append(want, c...)
	}
	out, in := &zzCap5{}, &zzCap5{}
	f := &TrzszFilter{clientOut: out, serverIn: in, serverOut: &zzFeed5{chunks: chunks}}
	f.options.EnableZmodem = verifNondetBool()
	f.options.EnableOSC52 = true
	go f.wrapOutput()
	verifQuiesce()
	zzSame5(out.got, want, "to terminal")
	verifAssert(len(in.got) == 0, "wrapper wrote to the remote side on its own")
	verifReach("osc-split")
}


// after the wrapper typed an upload command for dropped files (uploadDragFiles: echo filter armed, command remembered):
// the echo filter is one-shot. The first read after the command is either forwarded unchanged or, when it is exactly
// the command's echo, replaced by a line break; every later read is forwarded unchanged — also one that looks like the echo.
func zzH_C05_afterDrag() {
	l := verifBound("L")
	command := "trz"
	if verifNondetBool() {
		command = "trz -d"
	}
	var chunks [][]byte
	var lens []int
	for r := 0; r < 2; r++ {
		n := verifNondetRange(1, l)
		c := make([]byte, n)
		for i := range c {
			c[i] = verifNondetByte()
			verifAssume(c[i] != '*' && c[i] != ':') // no trigger, no zmodem header
		}
		chunks = append(chunks, c)
		lens = append(lens, n)
	}
	first := append([]byte{}, chunks[0]...)
	second := append([]byte{}, chunks[1]...)
	out, in := &zzCap5{}, &zzCap5{}
	f := &TrzszFilter{clientOut: out, serverIn: in, serverOut: &zzFeed5{chunks: chunks}}
	f.options.EnableZmodem = verifNondetBool()
	armed := verifNondetBool()
	f.skipUploadCommand.Store(armed)
	f.currentUploadCommand.Store(&command)
	go f.wrapOutput()
	verifQuiesce()
	verifAssert(len(in.got) == 0, "wrapper wrote to the remote side on its own")
	verifAssert(len(out.got) >= len(second), "later output lost after an auto-typed upload command")
	if len(out.got) >= len(second) {
		head := out.got[:len(out.got)-len(second)]
		zzSame5(out.got[len(out.got)-len(second):], second, "read after the echo of the upload command")
		if !armed || len(head) != 2 || head[0] != '\r' || head[1] != '\n' {
			zzSame5(head, first, "first read after the upload command")
		}
	}
	verifAssert(!f.skipUploadCommand.Load(), "echo filter still armed after the first read")
	verifReach("after-drag")
}

// zzEOFFeed5: a reader that hands out its chunks and ends with io.EOF, either together with the last chunk or on its
// own afterwards (both are allowed by the io.Reader contract)
type zzEOFFeed5 struct {
	chunks   [][]byte
	i        int
	together bool
}

func (r *zzEOFFeed5) Read(p []byte) (int, error) {
	if r.i >= len(r.chunks) {
		return 0, io.EOF
	}
	n := copy(p, r.chunks[r.i])
	r.i++
	if r.together && r.i == len(r.chunks) {
		return n, io.EOF
	}
	return n, nil
}

// the input pump itself (wrapInput): typed bytes in one or two reads up to the end of the input, the end reported
// together with the last bytes or separately — every byte reaches the remote side, then its input is closed
func zzH_C05_inPump() {
	l := verifBound("L")
	chunk := make([]byte, l)
	for i := range chunk {
		chunk[i] = verifNondetByte()
	}
	want := make([]byte, l)
	copy(want, chunk)
	chunks := [][]byte{chunk}
	cut := verifNondetRange(1, l)
	if cut < l {
		chunks = [][]byte{chunk[:cut], chunk[cut:]}
	}
	out, in := &zzCap5{}, &zzCap5{}
	f := &TrzszFilter{clientOut: out, serverIn: in, clientIn: &zzEOFFeed5{chunks: chunks, together: verifNondetBool()}}
	f.options.EnableZmodem = verifNondetBool()
	f.wrapInput()
	zzSame5(in.got, want, "to remote")
	verifAssert(len(out.got) == 0, "typed input echoed locally by the wrapper")
	verifReach("pumped")
}
