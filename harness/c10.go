package trzsz

// C10 — stopping ends a transfer promptly on both sides and removes only what it made.

type zzSink10 struct{ data []byte }

func (s *zzSink10) Write(p []byte) (int, error) {
	s.data = append(s.data, p...)
	return len(p), nil
}

func zzIsStopErr(err error, del bool) bool {
	if del {
		return err == errStoppedAndDeleted
	}
	return err == errStopped
}

// once stopped, every send/receive entry returns the stop error at once and writes nothing; stop is idempotent
func zzH_C10_flags() {
	sink := &zzSink10{}
	t := newTransfer(sink, nil, false, nil)
	t.transferConfig.Timeout = 0
	t.transferConfig.Protocol = verifNondetRange(1, 4)
	t.transferConfig.Binary = verifNondetBool()
	del := verifNondetBool()
	t.stopTransferringFiles(del)
	if verifNondetBool() {
		t.stopTransferringFiles(!del) // a second stop request of the other flavour changes nothing
	}
	verifAssert(t.stopped.Load(), "stop not latched")
	verifAssert(t.stopAndDelete.Load() == del, "stop flavour changed by a second request")
	t.buffer.addBuffer([]byte("#SUCC:5\n#DATA:3\nabc"))
	var err error
	switch verifNondetRange(0, 6) {
	case 0:
		err = t.sendData([]byte("payload"))
	case 1:
		_, err = t.sendDataV2([]byte("#DATA:3\nabc"), 3, true)
	case 2:
		_, err = t.recvLine("SUCC", false, nil)
	case 3:
		_, err = t.recvCheck("SUCC", false, nil)
	case 4:
		_, _, _, err = t.recvCheckV2("SUCC")
	case 5:
		err = t.checkStopAndPause("DATA")
	case 6:
		_, err = t.recvData()
	}
	verifAssert(zzIsStopErr(err, del), "an entry point did not return the stop error after the stop")
	verifAssert(len(sink.data) == 0, "a frame was written after the stop")
	verifReach("stopped")
}

// a reader parked waiting for input is woken by the stop
func zzH_C10_wake() {
	t := newTransfer(&zzSink10{}, nil, false, nil)
	t.transferConfig.Timeout = 0
	t.transferConfig.Protocol = verifNondetRange(1, 4)
	t.transferConfig.Binary = true
	which := verifNondetRange(0, 2)
	if which == 0 {
		if verifNondetBool() {
			t.buffer.addBuffer([]byte("#SUC")) // part of a line has arrived
		}
	} else if verifNondetBool() {
		t.buffer.addBuffer([]byte("#DATA:9\nab")) // a partial frame has arrived
	}
	del := verifNondetBool()
	done := false
	var err error
	go func() {
		switch which {
		case 0:
			_, err = t.recvCheck("SUCC", false, nil)
		case 1:
			_, err = t.recvData()
		case 2:
			_, _, err = t.pipelineRecvBinaryData()
		}
		done = true
	}()
	verifQuiesce()
	verifAssert(!done, "read returned without input")
	t.stopTransferringFiles(del)
	verifQuiesce()
	verifAssert(done, "blocked reader not woken by the stop")
	verifAssert(zzIsStopErr(err, del), "woken reader did not report the stop")
	verifReach("woken")
}

func zzRecvOne10(t *trzszTransfer, root, name string) {
	t.buffer.addBuffer([]byte("#NAME:" + encodeString(name) + "\n"))
	f, _, err := t.recvFileName(root, nil)
	verifAssume(err == nil)
	if f != nil {
		f.Write([]byte("new"))
		f.Close()
	}
}

// the stopping client: with stop-and-delete exactly what this transfer created is removed and the peer is told
// "Stopped and deleted"; with a plain stop nothing is removed; pre-existing entries are never touched
func zzH_C10_clientDelete() {
	root := verifFSRoot()
	verifFSAddFile(root+"/keep", []byte("old"))
	verifFSAddFile(root+"/a", []byte("old-a")) // collides with an incoming name: the transfer stores a.0 instead
	verifFSBegin()
	sink := &zzSink10{}
	t := newTransfer(sink, nil, false, nil)
	t.transferConfig.Timeout = 0
	t.transferConfig.Overwrite = false
	nfiles := verifNondetRange(0, 2)
	names := []string{"a", "b"}
	for i := 0; i < nfiles; i++ {
		zzRecvOne10(t, root, names[i])
	}
	sink.data = nil
	del := verifNondetBool()
	t.stopTransferringFiles(del)
	err := t.checkStop()
	verifAssert(zzIsStopErr(err, del), "checkStop after stop")
	t.clientError(err)
	verifAssert(!verifFSPreTouched(), "stop removed or modified something that existed before the transfer")
	verifAssert(verifFSKind(root+"/keep") == 1, "pre-existing file removed")
	verifAssert(verifFSKind(root+"/a") == 1, "pre-existing colliding file removed")
	for i := 0; i < nfiles; i++ {
		local := names[i]
		if i == 0 {
			local = "a.0"
		}
		if del {
			verifAssert(verifFSKind(root+"/"+local) == 0, "stop-and-delete left a file this transfer created")
		} else {
			verifAssert(verifFSKind(root+"/"+local) == 1, "plain stop removed a completed file")
		}
	}
	// what the peer is told
	verifAssert(len(sink.data) > 6, "peer not told about the stop")
	verifAssert(string(sink.data[:6]) == "#fail:", "stop not reported with a fail line")
	msg, derr := decodeString(string(sink.data[6 : len(sink.data)-1]))
	verifAssert(derr == nil, "fail line does not decode")
	want := "Stopped"
	if del {
		want = "Stopped and deleted"
	}
	verifAssert(len(msg) >= len(want) && string(msg[:len(want)]) == want, "fail line does not say how the transfer was stopped")
	if del {
		verifReach("deleted")
	} else {
		verifReach("kept")
	}
}

// the peer of a stop: only the exact message "Stopped and deleted" makes the server remove what it created
func zzH_C10_serverNotify() {
	root := verifFSRoot()
	verifFSAddFile(root+"/keep", []byte("old"))
	verifFSBegin()
	t := newTransfer(&zzSink10{}, nil, false, nil)
	t.transferConfig.Timeout = 0
	zzRecvOne10(t, root, "x")
	msgs := []string{"Stopped and deleted", "Stopped", "Stopped and deleted:", "stopped and deleted", "Interrupted"}
	m := msgs[verifNondetRange(0, len(msgs)-1)]
	typ := []string{"fail", "FAIL", "EXIT"}[verifNondetRange(0, 2)]
	t.buffer.addBuffer([]byte("#" + typ + ":" + encodeString(m) + "\n"))
	_, err := t.recvCheck("SUCC", false, nil) // the server was waiting for something else
	verifAssert(err != nil, "fail line accepted as a reply")
	t.serverError(err)
	verifAssert(verifFSKind(root+"/keep") == 1, "pre-existing file removed")
	verifAssert(!verifFSPreTouched(), "the server modified something that existed before the transfer")
	if typ == "fail" && m == "Stopped and deleted" {
		verifAssert(verifFSKind(root+"/x") == 0, "peer's stop-and-delete did not remove the server's created file")
		verifReach("server-deleted")
	} else {
		verifAssert(verifFSKind(root+"/x") == 1, "the server removed a file although the peer did not ask for it")
		verifReach("server-kept")
	}
}


func zzRecvEntry10(t *trzszTransfer, root string, rel []string, isDir bool) {
	src := &sourceFile{PathID: 0, RelPath: rel, IsDir: isDir}
	js, err := src.marshalSourceFile()
	verifAssume(err == nil)
	t.buffer.addBuffer([]byte("#NAME:" + encodeString(js) + "\n"))
	f, _, err := t.recvFileName(root, nil)
	verifAssume(err == nil)
	if f != nil {
		f.Write([]byte("new"))
		f.Close()
	}
}

// directory transfers: a directory that was already there (overwrite mode receives into it) is not "created by this
// transfer", so stop-and-delete leaves it and whatever it held; what the transfer added inside it is removed
func zzH_C10_dirDelete() {
	root := verifFSRoot()
	had := verifNondetBool()
	if had {
		verifFSAddDir(root + "/d")
		verifFSAddFile(root+"/d/old", []byte("old"))
		if verifNondetBool() {
			verifFSAddDir(root + "/d/e")
			verifFSAddFile(root+"/d/e/old", []byte("old-e"))
		}
	}
	verifFSBegin()
	sink := &zzSink10{}
	t := newTransfer(sink, nil, false, nil)
	t.transferConfig.Timeout = 0
	t.transferConfig.Directory = true
	t.transferConfig.Overwrite = verifNondetBool()
	n := verifNondetRange(1, 4)
	zzRecvEntry10(t, root, []string{"d"}, true)
	if n >= 2 {
		zzRecvEntry10(t, root, []string{"d", "x"}, false)
	}
	if n >= 3 {
		zzRecvEntry10(t, root, []string{"d", "e"}, true)
	}
	if n >= 4 {
		zzRecvEntry10(t, root, []string{"d", "e", "y"}, false)
	}
	top := "d"
	if had && !t.transferConfig.Overwrite {
		top = "d.0" // received next to the directory that was already there
	}
	// a further top-level file whose name merely begins with the received directory's name (not inside it)
	sib := ""
	if verifNondetBool() {
		sib = top + "2"
		zzRecvEntry10(t, root, []string{sib}, false)
	}
	sink.data = nil
	del := verifNondetBool()
	t.stopTransferringFiles(del)
	err := t.checkStop()
	verifAssert(zzIsStopErr(err, del), "checkStop after stop")
	t.clientError(err)
	verifAssert(!verifFSPreTouched(), "stop removed or modified something that existed before the transfer")
	if had {
		verifAssert(verifFSKind(root+"/d") == 2, "pre-existing directory removed")
		verifAssert(verifFSKind(root+"/d/old") == 1, "file inside a pre-existing directory removed")
	}
	if del {
		if top != "d" || !had {
			verifAssert(verifFSKind(root+"/"+top) == 0, "stop-and-delete left a directory this transfer created")
		}
		verifAssert(verifFSKind(root+"/"+top+"/x") == 0, "stop-and-delete left a file this transfer created")
		verifAssert(verifFSKind(root+"/"+top+"/e/y") == 0, "stop-and-delete left a nested file this transfer created")
		if sib != "" {
			verifAssert(verifFSKind(root+"/"+sib) == 0, "stop-and-delete left a file next to the received directory")
		}
		verifReach("dir-deleted")
	} else {
		if sib != "" {
			verifAssert(verifFSKind(root+"/"+sib) == 1, "plain stop removed a completed file next to the received directory")
		}
		verifAssert(verifFSKind(root+"/"+top) == 2, "plain stop removed a received directory")
		if n >= 2 {
			verifAssert(verifFSKind(root+"/"+top+"/x") == 1, "plain stop removed a completed file")
		}
		verifReach("dir-kept")
	}
}


// a stage that polls the stop flags while the user's stop request is being recorded (all interleavings): it either
// sees no stop yet or the stop of the kind the user chose — never a plain stop for a stop-and-delete
func zzH_C10_stopRace() {
	t := newTransfer(&zzSink10{}, nil, false, nil)
	del := verifNondetBool()
	var got error
	go t.stopTransferringFiles(del)
	go func() { got = t.checkStop() }()
	verifQuiesce()
	if got != nil {
		verifAssert(zzIsStopErr(got, del), "a stage polling during the stop request saw a stop of the other kind")
		verifReach("seen")
	} else {
		verifReach("not-yet")
	}
	verifAssert(zzIsStopErr(t.checkStop(), del), "stop kind after the request")
}
