package trzsz

import "sync/atomic"

// C19 — a zmodem session always ends by handing the terminal back.
// The real session object runs against stub helper process, pipes and timers; the harness plays the remote side,
// the user and the passing of time, choosing one event per step nondeterministically.

type zzSink19 struct {
	data    []byte
	onEnter func() // the remote shell's reaction to a lone carriage return (the hand-back Enter), if the harness plays one
}

func (s *zzSink19) Write(p []byte) (int, error) {
	s.data = append(s.data, p...)
	if s.onEnter != nil && len(p) == 1 && p[0] == '\r' {
		f := s.onEnter
		s.onEnter = nil
		f()
	}
	return len(p), nil
}

func (s *zzSink19) Close() error { return nil }

func zzContains19(hay, needle []byte) bool {
	for s := 0; s+len(needle) <= len(hay); s++ {
		ok := true
		for k := range needle {
			if hay[s+k] != needle[k] {
				ok = false
				break
			}
		}
		if ok {
			return true
		}
	}
	return false
}

const zzInitDownload = "**\x18B00000000000000\r"
const zzInitUpload = "**\x18B0100000000000000\r"
// the remote side's cancel: ZMODEM's signal is five or more CAN bytes; lrzsz sends 8 CAN + 10 BS, trzsz 10 + 10
func zzCancel19(cans int) []byte {
	var b []byte
	for i := 0; i < cans; i++ {
		b = append(b, 0x18)
	}
	for i := 0; i < 10; i++ {
		b = append(b, 8)
	}
	return b
}

var zzFiveCAN19 = []byte{0x18, 0x18, 0x18, 0x18, 0x18}

const zzFinish = "**\x18B0800000000022d"

func zzH_C19_session() {
	srv, cli := &zzSink19{}, &zzSink19{}
	upload := verifNondetBool()
	hdr := zzInitDownload
	if upload {
		hdr = zzInitUpload
	}
	z := detectZmodem([]byte(hdr))
	verifAssert(z != nil, "start header not recognised")
	if z == nil {
		return
	}
	verifAssert(z.upload == upload, "direction misread")
	chooserFails := verifNondetBool()
	go z.handleZmodemEvent(nil, srv, cli,
		func() ([]string, error) {
			if chooserFails {
				return nil, errUserCanceled
			}
			return []string{"/tmp/f"}, nil
		},
		func() (string, error) {
			if chooserFails {
				return "", errUserCanceled
			}
			return "/tmp", nil
		})
	verifQuiesce() // the event handler has taken over the streams
	// the user's keyboard goes through the real input path of the filter that owns this session
	f := &TrzszFilter{serverIn: srv, clientOut: cli}
	f.options.EnableZmodem = true
	f.zmodem.Store(z)
	var noDrag atomic.Bool
	dropped := false // the filter drops the session as soon as it declines server output
	feed := func(b []byte) {
		if !dropped && !z.handleServerOutput(b) {
			dropped = true
		}
	}
	// a fast remote shell: it answers the Enter that ends the session with a new prompt before the write returns
	promptSwallowed := false
	if verifNondetBool() {
		srv.onEnter = func() {
			if !dropped && z.handleServerOutput([]byte("$ ")) {
				promptSwallowed = true
			} else {
				dropped = true
			}
		}
	}
	for step := 0; step < verifBound("STEPS"); step++ {
		switch verifNondetRange(0, 7) {
		case 7:
			verifHelperCloseOutput() // the helper closes its stdout (it is done talking) but lingers
		case 0:
			feed([]byte("data"))
		case 1:
			feed([]byte(zzFinish))
		case 2:
			feed(zzCancel19(8 + 2*verifNondetRange(0, 1))) // lrzsz's or trzsz's form
		case 3:
			verifHelperExit(verifNondetRange(0, 1))
		case 4:
			verifHelperOutput([]byte("resp"))
		case 5:
			f.sendInput([]byte{3}, &noDrag) // Ctrl-C
		case 6:
			verifAdvanceTime()
		}
		verifQuiesce()
	}
	// from here on the remote side is quiet; let every armed timer fire (and the ones they arm)
	for i := 0; i < 4; i++ {
		verifAdvanceTime()
		verifQuiesce()
	}
	verifAssert(!promptSwallowed, "the prompt that answers the hand-back Enter was swallowed")
	verifAssert(z.stopped.Load(), "session still running although the line has been quiet beyond every timeout")
	verifAssert(!z.isTransferringFiles(), "session still claims the terminal after the line went quiet")
	if !dropped {
		verifAssert(!z.handleServerOutput([]byte("probe")), "remote output swallowed after the session ended")
	}
	// typed input flows again, Ctrl-C included, even while the remote side stays silent
	for _, key := range []byte{'x', 3} {
		before := len(srv.data)
		f.sendInput([]byte{key}, &noDrag)
		verifAssert(len(srv.data) == before+1 && srv.data[before] == key, "typed input does not reach the remote side after the session ended")
	}
	st := verifHelperState()
	verifAssert(st != 1, "helper process left running")
	if st >= 2 && !z.serverFinished.Load() {
		// the helper is gone while the remote side has not finished: it must be told to give up, whatever the exit code
		verifAssert(zzContains19(srv.data, zzFiveCAN19), "helper exited but the waiting remote side was not sent the cancel sequence")
	}
	if z.errorOccurred.Load() {
		verifAssert(zzContains19(srv.data, zzFiveCAN19), "abnormal end without the cancel sequence to the remote side")
		verifReach("aborted")
	} else {
		verifReach("ended")
	}
}

// output that carries a cancel sequence or 'cannot open' next to a header starts nothing
func zzH_C19_veto() {
	var buf []byte
	pre := verifNondetRange(0, 2)
	for i := 0; i < pre; i++ {
		buf = append(buf, verifNondetByte())
	}
	if verifNondetBool() {
		buf = append(buf, zzInitDownload...)
	} else {
		buf = append(buf, zzInitUpload...)
	}
	veto := verifNondetRange(0, 2)
	if veto == 1 {
		for i := verifNondetRange(5, 10); i > 0; i-- {
			buf = append(buf, 0x18)
		}
	} else if veto == 2 {
		buf = append(buf, "rz: cannot open /dev/tty"...)
	}
	post := verifNondetRange(0, 2)
	for i := 0; i < post; i++ {
		buf = append(buf, verifNondetByte())
	}
	z := detectZmodem(buf)
	if veto != 0 {
		verifAssert(z == nil, "session started although the output carries a cancel / cannot-open message")
		verifReach("vetoed")
	} else if z != nil {
		verifReach("started")
	}
}
