package trzsz

func verifNondetBool() bool
func verifAssert(bool, string)
func verifReach(string)
func verifQuiesce()
func verifAdvanceTime()
func verifLiveThreads() int

type zzSink struct{ n int }

func (s *zzSink) Write(p []byte) (int, error) { s.n += len(p); return len(p), nil }

// helper cannot be started (or the path chooser fails); the server stays silent afterwards
func zzH_C19_helperMissing() {
	z := &zmodemTransfer{upload: false}
	srv, cli := &zzSink{}, &zzSink{}
	chooserFails := verifNondetBool()
	go z.handleZmodemEvent(nil, srv, cli, nil, func() (string, error) {
		if chooserFails {
			return "", errUserCanceled
		}
		return "/tmp", nil
	})
	verifQuiesce()
	// the remote side is quiet: no handleServerOutput calls; let every armed timer fire
	verifAdvanceTime()
	verifQuiesce()
	verifAdvanceTime()
	verifQuiesce()
	if z.stopped.Load() {
		verifAssert(srv.n > 0, "no cancel sequence sent to the server")
		verifAssert(!z.isTransferringFiles(), "session still claims the terminal after the line went quiet")
		verifReach("stopped")
	} else {
		verifReach("running")
	}
}
