package trzsz

// C02 — no silent corruption: every acceptance guard is exact.
// For each guard the received value is symbolic (the connection may have altered it in any way) and the solver
// proves: no error  =>  the received type and value equal what was expected. A fail/FAIL/EXIT line in place of the
// expected one is a remote-error value, never payload.

import "strconv"

type zzSink2 struct{ data []byte }

func (s *zzSink2) Write(p []byte) (int, error) {
	s.data = append(s.data, p...)
	return len(p), nil
}

func zzTransfer2() (*trzszTransfer, *zzSink2) {
	sink := &zzSink2{}
	t := newTransfer(sink, nil, false, nil)
	t.transferConfig.Timeout = 0
	return t, sink
}

// typed line check: '#' + type + ':' + payload with the type bytes symbolic
func zzH_C02_recvCheck() {
	t, _ := zzTransfer2()
	nt := verifNondetRange(0, 5)
	typ := make([]byte, nt)
	for i := range typ {
		typ[i] = verifNondetByte()
		verifAssume(typ[i] != '\n')
	}
	np := verifNondetRange(0, 3)
	payload := make([]byte, np)
	for i := range payload {
		payload[i] = verifNondetByte()
		verifAssume(payload[i] != '\n')
	}
	lead := verifNondetByte()
	verifAssume(lead != '\n')
	line := append([]byte{lead}, typ...)
	line = append(line, ':')
	line = append(line, payload...)
	line = append(line, '\n')
	t.buffer.addBuffer(line)
	useV2 := verifNondetBool()
	var got string
	var err error
	if useV2 {
		t.transferConfig.Protocol = 2
		var b []byte
		b, _, _, err = t.recvCheckV2("SUCC")
		got = string(b)
	} else {
		got, err = t.recvCheck("SUCC", false, nil)
	}
	if err == nil {
		// the first ':' decides where the type ends
		verifAssert(string(typ) == "SUCC" || zzTypeBeforeColon(typ, "SUCC"), "a line of another type was accepted")
		verifReach("accepted")
		_ = got
	} else {
		verifReach("rejected")
	}
}

// zzTypeBeforeColon: typ itself contains a ':' after exactly want (then the rest belongs to the payload)
func zzTypeBeforeColon(typ []byte, want string) bool {
	return len(typ) > len(want) && string(typ[:len(want)]) == want && typ[len(want)] == ':'
}

// integer echo (NUM / SIZE / chunk length): accepted only if equal
func zzH_C02_echoInt() {
	t, _ := zzTransfer2()
	expect, got := int64(verifNondetInt()), int64(verifNondetInt())
	t.buffer.addBuffer([]byte("#SUCC:" + strconv.FormatInt(got, 10) + "\n"))
	err := t.checkInteger(expect, nil)
	if err == nil {
		verifAssert(got == expect, "integer echo accepted although it differs")
		verifReach("equal")
	} else {
		verifAssert(got != expect, "correct integer echo rejected")
		verifReach("differs")
	}
}

// string and binary echo (NAME, MD5): accepted only if equal
func zzH_C02_echoStrBin() {
	t, _ := zzTransfer2()
	n, m := verifNondetRange(0, 3), verifNondetRange(0, 3)
	a, b := make([]byte, n), make([]byte, m)
	for i := range a {
		a[i] = verifNondetByte()
	}
	for i := range b {
		b[i] = verifNondetByte()
	}
	same := string(a) == string(b)
	var err error
	if verifNondetBool() {
		t.buffer.addBuffer([]byte("#SUCC:" + encodeString(string(b)) + "\n"))
		err = t.checkString(string(a), nil)
	} else {
		t.buffer.addBuffer([]byte("#SUCC:" + encodeBytes(b) + "\n"))
		err = t.checkBinary(a, nil)
	}
	if err == nil {
		verifAssert(same, "echo accepted although it differs")
		verifReach("equal")
	} else {
		verifAssert(!same, "correct echo rejected")
		verifReach("differs")
	}
}

// the digest exchange in both roles with arbitrary 16-byte digests
func zzH_C02_md5() {
	t, sink := zzTransfer2()
	local, remote := make([]byte, 16), make([]byte, 16)
	for i := range local {
		local[i] = verifNondetByte()
		remote[i] = verifNondetByte()
	}
	same := string(local) == string(remote)
	if verifNondetBool() {
		// receiver: the sender's digest arrives, must equal the digest of what was saved
		t.buffer.addBuffer([]byte("#MD5:" + encodeBytes(remote) + "\n"))
		err := t.recvFileMD5(local, nil)
		if err == nil {
			verifAssert(same, "file acknowledged although the digests differ")
			verifAssert(len(sink.data) > 0, "digest not echoed")
			verifReach("recv-ok")
		} else {
			verifAssert(!same, "matching digest rejected")
			verifAssert(len(sink.data) == 0, "digest acknowledged although it differs")
			verifReach("recv-mismatch")
		}
	} else {
		// sender: sends its digest and needs the identical echo
		t.buffer.addBuffer([]byte("#SUCC:" + encodeBytes(remote) + "\n"))
		err := t.sendFileMD5(local, nil)
		if err == nil {
			verifAssert(same, "file reported as sent although the echoed digest differs")
			verifReach("send-ok")
		} else {
			verifReach("send-mismatch")
		}
	}
}

// a fail / FAIL / EXIT line in place of the expected reply is a remote error, never payload or success
func zzH_C02_remoteError() {
	t, _ := zzTransfer2()
	typ := []string{"fail", "FAIL", "EXIT"}[verifNondetRange(0, 2)]
	t.buffer.addBuffer([]byte("#" + typ + ":" + encodeString("5") + "\n"))
	var err error
	switch verifNondetRange(0, 3) {
	case 0:
		err = t.checkInteger(5, nil)
	case 1:
		err = t.checkString("5", nil)
	case 2:
		_, err = t.recvInteger("SIZE", false, nil)
	case 3:
		_, err = t.recvData()
	}
	verifAssert(err != nil, "a fail/EXIT line was accepted as the expected reply")
	if e, ok := err.(*trzszError); ok {
		verifAssert(e.isRemoteFail() || e.isRemoteExit(), "remote error not recognised as such")
	} else {
		verifAssert(false, "remote error of an unexpected kind")
	}
	verifReach("remote-error")
}
