package trzsz

// C09 — received files can only be created inside the chosen destination directory.
// Peer-supplied names travel through the real decode entry points (recvFileName, recvFileNameV3, the archive
// writer's header parser) into the real createFile/createDirOrFile and the real path/filepath.Join/Clean.
// The file system is the stub FS (symbolic build) or a sandbox directory (native replay).

type zzSink9 struct{ data []byte }

func (s *zzSink9) Write(p []byte) (int, error) {
	s.data = append(s.data, p...)
	return len(p), nil
}

// zzPeerName: 0..max bytes chosen by the peer. ASCII without NUL: bytes >= 0x80 cannot travel through JSON
// unchanged and the OS rejects NUL, so neither can name a file.
var zzAlpha9 = "./a"

func zzPeerName(max int) string {
	n := max
	if verifBoundOr("EXACT", 0) == 0 {
		n = verifNondetRange(0, max)
	}
	b := make([]byte, n)
	for i := range b {
		if verifBoundOr("ALPHA", 0) >= 1 {
			// the bytes that matter to path resolution here: dot, separator, one ordinary letter (longer lists at lower cost)
			b[i] = zzAlpha9[verifNondetRange(0, len(zzAlpha9)-1)]
			continue
		}
		c := verifNondetByte()
		verifAssume(c != 0)
		verifAssume(c < 0x80)
		b[i] = c
	}
	return string(b)
}

func zzPeerPathList() []string {
	k := verifBound("ELEMS")
	if verifBoundOr("EXACT", 0) == 0 {
		k = verifNondetRange(1, k)
	}
	if verifBoundOr("DICT", 0) == 1 {
		// longer lists at lower cost: every element is one of the shapes that matter to path resolution
		dict := []string{"a", "..", ".", "a/b", "a/", "/a", "", "a/..", "../a", "a\\b"}
		rel := make([]string, k)
		for i := range rel {
			rel[i] = dict[verifNondetRange(0, len(dict)-1)]
		}
		return rel
	}
	rel := make([]string, k)
	for i := range rel {
		n := verifBound("BYTES")
		zzAlpha9 = "./a"
		if i == 0 {
			n = verifBoundOr("FIRST", n) // the first element (the one the receiver maps to a local name) may be longer
		} else if verifBoundOr("ALPHA", 0) == 2 {
			zzAlpha9 = ".a" // a separator only inside the first element
		}
		rel[i] = zzPeerName(n)
	}
	return rel
}

func zzRecvTransfer9() (*trzszTransfer, string) {
	root := verifFSRoot()
	verifFSSymbolicExists()
	verifFSBegin()
	t := newTransfer(&zzSink9{}, nil, false, nil)
	t.transferConfig.Timeout = 0
	t.transferConfig.Overwrite = verifNondetBool()
	return t, root
}

func zzUse9(f fileWriter) {
	if f != nil {
		f.Write([]byte{'x'}) // what a receiver does next: store payload
		f.Close()
	}
}

// protocol 1/2 NAME message: a plain name, or (directory mode) a JSON record with a path list
func zzH_C09_recvName() {
	t, root := zzRecvTransfer9()
	var name string
	if verifNondetBool() {
		t.transferConfig.Directory = true
		src := &sourceFile{PathID: 0, RelPath: zzPeerPathList(), IsDir: verifNondetBool()}
		js, err := src.marshalSourceFile()
		verifAssume(err == nil)
		name = js
	} else {
		name = zzPeerName(verifBound("PLAIN"))
	}
	t.buffer.addBuffer([]byte("#NAME:" + encodeString(name) + "\n"))
	f, _, err := t.recvFileName(root, nil)
	zzUse9(f)
	verifAssert(!verifFSEscaped(), "created, written or removed outside the destination")
	if err == nil {
		verifReach("accepted")
	} else {
		verifAssert(verifFSMutations() == 0 || !verifFSEscaped(), "refused after touching something outside")
		verifReach("refused")
	}
}

// protocol 3/4 NAME message (always a JSON record; the file is opened without truncation and then resumed)
func zzH_C09_recvNameV3() {
	t, root := zzRecvTransfer9()
	t.transferConfig.Protocol = 3
	t.transferConfig.Directory = verifNondetBool()
	src := &sourceFile{PathID: 0, RelPath: zzPeerPathList(), IsDir: verifNondetBool()}
	js, err := src.marshalSourceFile()
	verifAssume(err == nil)
	t.buffer.addBuffer([]byte("#NAME:" + encodeString(js) + "\n"))
	f, _, err := t.recvFileNameV3(root, nil)
	zzUse9(f)
	verifAssert(!verifFSEscaped(), "created, written or removed outside the destination")
	if err == nil {
		verifReach("accepted")
	} else {
		verifReach("refused")
	}
}

// archive stream: the top-level directory is legitimate, the entry header inside the stream is the peer's
func zzH_C09_archive() {
	t, root := zzRecvTransfer9()
	t.transferConfig.Protocol = 4
	t.transferConfig.Directory = true
	top := &sourceFile{PathID: 0, RelPath: []string{"d"}, IsDir: true, Archive: true}
	w, _, err := t.createDirOrFile(root, top, false)
	verifAssume(err == nil)
	verifAssume(w != nil)
	rel := zzPeerPathList()
	if verifNondetBool() {
		rel = append([]string{"d"}, rel...) // the first element may or may not repeat the announced directory
	}
	isDir := verifNondetBool()
	ent := &sourceFile{PathID: 0, RelPath: rel, IsDir: isDir}
	if !isDir {
		ent.Size = 1
	}
	js, err := ent.marshalSourceFile()
	verifAssume(err == nil)
	stream := []byte(encodeString(js) + "\n")
	if !isDir {
		stream = append(stream, 'x')
	}
	err = writeAll(w, stream)
	w.Close()
	verifAssert(!verifFSEscaped(), "created, written or removed outside the destination")
	if verifBoundOr("DEL", 0) == 1 {
		t.deleteCreatedFiles() // the user stops and deletes: whatever was recorded as created is removed
		verifAssert(!verifFSEscaped(), "stop-and-delete removed something outside the destination")
	}
	if err == nil {
		verifReach("accepted")
	} else {
		verifReach("refused")
	}
}

// stop-and-delete after a receive: only paths inside the destination are removed
func zzH_C09_delete() {
	t, root := zzRecvTransfer9()
	t.transferConfig.Directory = true
	src := &sourceFile{PathID: 0, RelPath: zzPeerPathList(), IsDir: verifNondetBool()}
	js, err := src.marshalSourceFile()
	verifAssume(err == nil)
	t.buffer.addBuffer([]byte("#NAME:" + encodeString(js) + "\n"))
	f, _, _ := t.recvFileName(root, nil)
	zzUse9(f)
	t.deleteCreatedFiles()
	verifAssert(!verifFSEscaped(), "created, written or removed outside the destination")
	verifReach("deleted")
}
