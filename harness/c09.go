package trzsz

import "path/filepath"

func verifNondetByte() byte
func verifNondetRange(lo, hi int) int
func verifAssume(bool)
func verifAssert(bool, string)
func verifReach(string)

func zzInside(dest, p string) bool {
	if len(p) <= len(dest) {
		return false
	}
	return p[:len(dest)] == dest && p[len(dest)] == '/'
}

func zzH_C09_join() {
	n := verifNondetRange(1, 3)
	b := make([]byte, n)
	for i := range b {
		b[i] = verifNondetByte()
	}
	name := string(b)
	p := filepath.Join("/d", name)
	verifAssert(zzInside("/d", p), "joined path escapes destination")
	verifReach("join")
}
