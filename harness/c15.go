package trzsz

// C15 — a directory sent as one archive stream is reconstructed exactly.
// The real archive reader produces the stream from a source tree in the stub FS / sandbox; the real archive writer
// consumes it under an independent segmentation; trees, contents, read sizes and write cuts are solver variables.

import "io"

type zzSink15 struct{}

func (zzSink15) Write(p []byte) (int, error) { return len(p), nil }

type zzEntry15 struct {
	name    string
	isDir   bool
	content []byte
}

// zzTree15 declares a source directory "d" with E entries (each a sub-directory or a file of 0..S symbolic bytes).
func zzTree15(sroot string) ([]*sourceFile, []zzEntry15) {
	names := []string{"a", "b..c", "c", "e", "f"} // "b..c": an ordinary name that merely contains two dots
	verifFSAddDir(sroot)
	verifFSAddDir(sroot + "/d")
	files := []*sourceFile{{PathID: 0, AbsPath: sroot + "/d", RelPath: []string{"d"}, IsDir: true}}
	var ents []zzEntry15
	for i := 0; i < verifBound("E"); i++ {
		nm := names[i]
		if verifNondetBool() {
			verifFSAddDir(sroot + "/d/" + nm)
			files = append(files, &sourceFile{PathID: 0, AbsPath: sroot + "/d/" + nm, RelPath: []string{"d", nm}, IsDir: true})
			ents = append(ents, zzEntry15{nm, true, nil})
			continue
		}
		n := verifNondetRange(0, verifBound("S"))
		c := make([]byte, n)
		for j := range c {
			c[j] = verifNondetByte()
		}
		verifFSAddFile(sroot+"/d/"+nm, c)
		files = append(files, &sourceFile{PathID: 0, AbsPath: sroot + "/d/" + nm, RelPath: []string{"d", nm}, Size: int64(n)})
		ents = append(ents, zzEntry15{nm, false, c})
	}
	return files, ents
}

func zzSrcRoot15(root string) string { return root[:len(root)-4] + "src" }

func zzH_C15_roundtrip() {
	root := verifFSRoot()
	sroot := zzSrcRoot15(root)
	files, ents := zzTree15(sroot)
	verifFSBegin()
	snd := newTransfer(zzSink15{}, nil, false, nil)
	snd.transferConfig.Protocol = 4
	snd.transferConfig.Directory = true
	arch := snd.archiveSourceFiles(files)
	verifAssert(len(arch) == 1, "archive grouping: one top-level entry per source path")
	verifAssert(len(arch[0].SubFiles) == len(ents), "archive grouping: every entry below its top-level path")
	rd, err := snd.newArchiveReader(arch[0])
	verifAssert(err == nil, "newArchiveReader error")

	// producer: one read size for the run (solver's choice), or one size per call
	var stream []byte
	perCall := verifBound("PERCALL") != 0
	rsize := verifNondetRange(1, verifBound("R"))
	eof := false
	for k := 0; k < 100000; k++ {
		if perCall {
			rsize = verifNondetRange(1, verifBound("R"))
		}
		p := make([]byte, rsize)
		n, err := rd.Read(p)
		verifAssert(n <= rsize, "reader: n > len(p)")
		verifAssert(verifFSOpenHandles() <= 1, "reader holds more than one source file open")
		stream = append(stream, p[:n]...)
		if err == io.EOF {
			eof = true
			break
		}
		verifAssert(err == nil, "reader error")
	}
	verifAssert(eof, "reader did not reach EOF")
	rd.Close()
	verifAssert(verifFSOpenHandles() == 0, "reader left a source file open after Close")
	verifAssert(int64(len(stream)) == rd.getSize(), "announced size differs from the bytes produced")

	// consumer: independent segmentation
	rcv := newTransfer(zzSink15{}, nil, false, nil)
	rcv.transferConfig.Protocol = 4
	rcv.transferConfig.Directory = true
	top := &sourceFile{PathID: 0, RelPath: []string{"d"}, IsDir: true, Archive: true}
	w, _, err := rcv.createDirOrFile(root, top, false)
	verifAssert(err == nil, "archive writer error")
	verifAssert(w != nil, "no archive writer")
	wsize := verifNondetRange(1, verifBound("W"))
	for pos := 0; pos < len(stream); {
		if perCall {
			wsize = verifNondetRange(1, verifBound("W"))
		}
		end := pos + wsize
		if end > len(stream) {
			end = len(stream)
		}
		verifAssert(writeAll(w, stream[pos:end]) == nil, "write error")
		verifAssert(verifFSOpenHandles() <= 1, "writer holds more than one file open")
		pos = end
	}
	w.Close()
	verifAssert(verifFSOpenHandles() == 0, "handles left open after Close")

	verifAssert(verifFSKind(root+"/d") == 2, "top-level directory missing")
	for _, e := range ents {
		p := root + "/d/" + e.name
		if e.isDir {
			verifAssert(verifFSKind(p) == 2, "directory entry missing")
			continue
		}
		verifAssert(verifFSKind(p) == 1, "file entry missing")
		got := verifFSContent(p)
		verifAssert(len(got) == len(e.content), "file length")
		for j := range e.content {
			verifAssert(got[j] == e.content[j], "file content")
		}
	}
	verifReach("archive")
}

// a source file whose real length differs from the scanned size: shorter => error, never shifted entries
func zzH_C15_shrink() {
	root := verifFSRoot()
	sroot := zzSrcRoot15(root)
	verifFSAddDir(sroot)
	verifFSAddDir(sroot + "/d")
	n := verifNondetRange(1, verifBound("S"))
	delta := verifNondetRange(-1, 1)
	real := n + delta
	c := make([]byte, real)
	for j := range c {
		c[j] = verifNondetByte()
	}
	verifFSAddFile(sroot+"/d/a", c)
	verifFSAddFile(sroot+"/d/b", []byte{'B'})
	files := []*sourceFile{
		{PathID: 0, AbsPath: sroot + "/d", RelPath: []string{"d"}, IsDir: true},
		{PathID: 0, AbsPath: sroot + "/d/a", RelPath: []string{"d", "a"}, Size: int64(n)},
		{PathID: 0, AbsPath: sroot + "/d/b", RelPath: []string{"d", "b"}, Size: 1},
	}
	verifFSBegin()
	snd := newTransfer(zzSink15{}, nil, false, nil)
	snd.transferConfig.Protocol = 4
	snd.transferConfig.Directory = true
	arch := snd.archiveSourceFiles(files)
	rd, err := snd.newArchiveReader(arch[0])
	verifAssert(err == nil, "newArchiveReader error")
	rsize := verifNondetRange(1, verifBound("R"))
	total := 0
	var rerr error
	for k := 0; k < 100000; k++ {
		p := make([]byte, rsize)
		m, err := rd.Read(p)
		total += m
		if err != nil {
			rerr = err
			break
		}
	}
	rd.Close()
	if delta < 0 {
		verifAssert(rerr != io.EOF, "shrunken source file not reported: stream ended as if complete")
		verifAssert(rerr != nil, "shrunken source file not reported")
		verifReach("shrunk-reported")
	} else {
		verifAssert(rerr == io.EOF, "reader error on a file that did not shrink")
		verifAssert(int64(total) == rd.getSize(), "announced size differs from the bytes produced")
		verifReach("complete")
	}
}


// pseudo-random, poorly compressible name of n letters/digits (deterministic)
func zzName15(seed, n int) string {
	const alpha = "abcdefghijklmnopqrstuvwxyzABCDEFGHIJKLMNOPQRSTUVWXYZ0123456789"
	b := make([]byte, n)
	x := uint32(seed)*2654435761 + 12345
	for i := range b {
		x = x*1664525 + 1013904223
		b[i] = alpha[(x>>16)%62]
	}
	return string(b)
}

// long entry headers: a chain of DEPTH nested directories with NAMELEN-character names and a file at the bottom, so
// that the deepest headers are well over a kilobyte (natively: base64(zlib(JSON)) of poorly compressible names; in the
// symbolic build the codec token is padded to TOKPAD bytes); the consumer's write size is 1, BIG or the whole stream
func zzH_C15_longHeader() {
	root := verifFSRoot()
	sroot := zzSrcRoot15(root)
	verifFSAddDir(sroot)
	verifFSAddDir(sroot + "/d")
	files := []*sourceFile{{PathID: 0, AbsPath: sroot + "/d", RelPath: []string{"d"}, IsDir: true}}
	rel := []string{"d"}
	path := "/d"
	for i := 0; i < verifBound("DEPTH"); i++ {
		nm := zzName15(i, verifBound("NAMELEN"))
		path += "/" + nm
		rel = append(append([]string{}, rel...), nm)
		verifFSAddDir(sroot + path)
		files = append(files, &sourceFile{PathID: 0, AbsPath: sroot + path, RelPath: rel, IsDir: true})
	}
	n := verifNondetRange(0, verifBound("S"))
	content := make([]byte, n)
	for j := range content {
		content[j] = verifNondetByte()
	}
	verifFSAddFile(sroot+path+"/f", content)
	files = append(files, &sourceFile{PathID: 0, AbsPath: sroot + path + "/f", RelPath: append(append([]string{}, rel...), "f"), Size: int64(n)})
	verifFSBegin()
	snd := newTransfer(zzSink15{}, nil, false, nil)
	snd.transferConfig.Protocol = 4
	snd.transferConfig.Directory = true
	arch := snd.archiveSourceFiles(files)
	rd, err := snd.newArchiveReader(arch[0])
	verifAssert(err == nil, "newArchiveReader error")
	var stream []byte
	for k := 0; k < 100000; k++ {
		p := make([]byte, 4096)
		n, err := rd.Read(p)
		stream = append(stream, p[:n]...)
		if err == io.EOF {
			break
		}
		verifAssert(err == nil, "reader error")
	}
	rd.Close()
	verifAssert(int64(len(stream)) == rd.getSize(), "announced size differs from the bytes produced")

	rcv := newTransfer(zzSink15{}, nil, false, nil)
	rcv.transferConfig.Protocol = 4
	rcv.transferConfig.Directory = true
	top := &sourceFile{PathID: 0, RelPath: []string{"d"}, IsDir: true, Archive: true}
	w, _, err := rcv.createDirOrFile(root, top, false)
	verifAssert(err == nil, "archive writer error")
	verifAssert(w != nil, "no archive writer")
	wsize := []int{1, verifBound("BIG"), len(stream) + 1}[verifNondetRange(0, 2)]
	for pos := 0; pos < len(stream); {
		end := pos + wsize
		if end > len(stream) {
			end = len(stream)
		}
		verifAssert(writeAll(w, stream[pos:end]) == nil, "write error: a valid stream was refused under this segmentation")
		pos = end
	}
	w.Close()
	verifAssert(verifFSOpenHandles() == 0, "handles left open after Close")
	verifAssert(verifFSKind(root+path) == 2, "deepest directory missing")
	got := verifFSContent(root + path + "/f")
	verifAssert(len(got) == len(content), "file length")
	for j := range content {
		verifAssert(got[j] == content[j], "file content")
	}
	verifReach("long-header")
}
