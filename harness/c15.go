package trzsz

import "io"

func verifNondetByte() byte
func verifNondetBool() bool
func verifNondetRange(lo, hi int) int
func verifAssume(bool)
func verifAssert(bool, string)
func verifReach(string)
func verifFSAddFile(path string, content []byte)
func verifFSAddDir(path string)
func verifFSContent(path string) []byte
func verifFSKind(path string) int
func verifFSOpenHandles() int

type zzNop struct{}

func (zzNop) Write(p []byte) (int, error) { return len(p), nil }

func zzH_C15_roundtrip() {
	names := []string{"a", "b", "c"}
	verifFSAddDir("/s/d")
	verifFSAddDir("/dst")
	files := []*sourceFile{{PathID: 0, AbsPath: "/s/d", RelPath: []string{"d"}, IsDir: true}}
	var contents [][]byte
	var isDir []bool
	for _, nm := range names {
		if verifNondetBool() {
			verifFSAddDir("/s/d/" + nm)
			files = append(files, &sourceFile{PathID: 0, AbsPath: "/s/d/" + nm, RelPath: []string{"d", nm}, IsDir: true})
			contents = append(contents, nil)
			isDir = append(isDir, true)
			continue
		}
		n := verifNondetRange(0, 2)
		c := make([]byte, n)
		for i := range c {
			c[i] = verifNondetByte()
		}
		verifFSAddFile("/s/d/"+nm, c)
		files = append(files, &sourceFile{PathID: 0, AbsPath: "/s/d/" + nm, RelPath: []string{"d", nm}, Size: int64(n)})
		contents = append(contents, c)
		isDir = append(isDir, false)
	}
	snd := newTransfer(zzNop{}, nil, false, nil)
	snd.transferConfig.Protocol = 4
	snd.transferConfig.Directory = true
	arch := snd.archiveSourceFiles(files)
	verifAssert(len(arch) == 1 && len(arch[0].SubFiles) == 3, "archive grouping")
	rd, err := snd.newArchiveReader(arch[0])
	verifAssert(err == nil, "newArchiveReader")
	rcv := newTransfer(zzNop{}, nil, false, nil)
	rcv.transferConfig.Protocol = 4
	rcv.transferConfig.Directory = true
	top := &sourceFile{PathID: 0, RelPath: []string{"d"}, IsDir: true, Archive: true}
	w, _, err := rcv.createDirOrFile("/dst", top, false)
	verifAssert(err == nil && w != nil, "archive writer")
	total := int64(0)
	psize := verifNondetRange(1, 3)
	for k := 0; k < 40; k++ {
		p := make([]byte, psize)
		n, err := rd.Read(p)
		if n > 0 {
			total += int64(n)
			verifAssert(writeAll(w, p[:n]) == nil, "write error")
			verifAssert(verifFSOpenHandles() <= 2, "writer holds more than one file open")
		}
		if err == io.EOF {
			break
		}
		verifAssert(err == nil, "read error")
	}
	rd.Close()
	w.Close()
	verifAssert(total == rd.getSize(), "announced size differs from bytes produced")
	verifAssert(verifFSKind("/dst/d") == 2, "top dir")
	for i, nm := range names {
		if isDir[i] {
			verifAssert(verifFSKind("/dst/d/"+nm) == 2, "dir entry")
			continue
		}
		verifAssert(verifFSKind("/dst/d/"+nm) == 1, "file entry")
		got := verifFSContent("/dst/d/" + nm)
		verifAssert(len(got) == len(contents[i]), "file length")
		for j := range contents[i] {
			verifAssert(got[j] == contents[i][j], "file content")
		}
	}
	verifAssert(verifFSOpenHandles() == 0, "handles left open after Close")
	verifReach("archive")
}
