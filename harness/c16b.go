package trzsz

func verifNondetByte() byte
func verifNondetBool() bool
func verifNondetRange(lo, hi int) int
func verifAssume(bool)
func verifAssert(bool, string)
func verifReach(string)
func verifExpectBlock(int)

type zzNop2 struct{}

func (zzNop2) Write(p []byte) (int, error) { return len(p), nil }

func zzLetter() byte {
	c := verifNondetByte()
	verifAssume(isTrzszLetter(c))
	return c
}

const zzStatus = "\x1bP=1s\x1b\\\x1b[?25l\x1b[?12l\x1b[?25h\x1b[5 q\x1bP=2s\x1b\\"

// tmux: junk prefix, CR LF wraps at every gap, one status string after the marker, one cut
func zzH_C16_tmux() {
	t := newTransfer(zzNop2{}, nil, false, nil)
	t.transferConfig.TmuxOutputJunk = true
	l0, l1 := zzLetter(), zzLetter()
	verifAssume(l0 != '#')
	verifAssume(l1 != '#')
	payload := []byte{'#', 'S', ':', l0, l1}
	var stream []byte
	if verifNondetBool() {
		j := verifNondetByte()
		verifAssume(j != '\n')
		verifAssume(j != '\r')
		verifAssume(j != 3)
		verifAssume(j != '#')
		verifAssume(j != 0x1b)
		stream = append(stream, j)
	}
	statusAt := verifNondetRange(3, 6)
	for i, c := range payload {
		if verifNondetBool() {
			stream = append(stream, '\r', '\n')
		}
		if i == statusAt {
			stream = append(stream, zzStatus...)
		}
		stream = append(stream, c)
	}
	if statusAt == 5 {
		stream = append(stream, zzStatus...)
	}
	if verifNondetBool() {
		stream = append(stream, '\r', '\n')
	}
	stream = append(stream, '\n')
	t.buffer.addBuffer(stream)
	verifExpectBlock(1)
	line, err := t.recvLine("S", false, nil)
	verifExpectBlock(0)
	verifAssert(err == nil, "error")
	verifAssert(len(line) == len(payload), "length")
	if len(line) == len(payload) {
		for i := range payload {
			verifAssert(line[i] == payload[i], "content")
		}
	}
	verifReach("tmux")
}

func zzPad(stream []byte) []byte {
	if verifNondetBool() {
		p := verifNondetByte()
		verifAssume(!isTrzszLetter(p))
		verifAssume(p != 0x1b)
		verifAssume(p != 3)
		verifAssume(p != '!')
		verifAssume(p != '\n')
		stream = append(stream, p)
	}
	return stream
}

// W2: the last letter is re-printed after LF + cursor positioning
func zzH_C16_winReprint() {
	l0, l1, l2 := zzLetter(), zzLetter(), zzLetter()
	at := verifNondetRange(0, 2) // after which letter the re-print happens
	letters := []byte{l0, l1, l2}
	var stream []byte
	for i, c := range letters {
		stream = append(stream, c)
		if i == at {
			stream = zzPad(stream)
			stream = append(stream, '\r', '\n')
			stream = zzPad(stream)
			d1, d2 := verifNondetByte(), verifNondetByte()
			verifAssume(d1 >= '0')
			verifAssume(d1 <= '9')
			verifAssume(d2 >= '0')
			verifAssume(d2 <= '9')
			stream = append(stream, 0x1b, '[', d1, ';', d2, 'H', c)
		}
	}
	stream = append(stream, '!')
	b := newTrzszBuffer()
	cut := verifNondetRange(1, len(stream))
	b.addBuffer(stream[:cut])
	if cut < len(stream) {
		b.addBuffer(stream[cut:])
	}
	verifExpectBlock(1)
	l, err := b.readLineOnWindows(nil)
	verifExpectBlock(0)
	verifAssert(err == nil, "error")
	verifAssert(len(l) == 3, "length")
	if len(l) == 3 {
		verifAssert(l[0] == l0 && l[1] == l1 && l[2] == l2, "content")
	}
	verifReach("reprint")
}

// W3: junk letter printed at cursor home, replaced after cursor move + LF
func zzH_C16_winHome() {
	l0, l1, l2, x := zzLetter(), zzLetter(), zzLetter(), zzLetter()
	var stream []byte
	stream = append(stream, l0)
	stream = zzPad(stream)
	stream = append(stream, 0x1b, '[', 'H', x, 0x1b, '[', '6', ';', '8', 'H')
	stream = zzPad(stream)
	stream = append(stream, '\r', '\n', l1, l2, '!')
	b := newTrzszBuffer()
	cut := verifNondetRange(1, len(stream))
	b.addBuffer(stream[:cut])
	if cut < len(stream) {
		b.addBuffer(stream[cut:])
	}
	verifExpectBlock(1)
	l, err := b.readLineOnWindows(nil)
	verifExpectBlock(0)
	verifAssert(err == nil, "error")
	verifAssert(len(l) == 3, "length")
	if len(l) == 3 {
		verifAssert(l[0] == l0 && l[1] == l1 && l[2] == l2, "content")
	}
	verifReach("home")
}
