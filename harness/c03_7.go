package trzsz

func verifNondetByte() byte
func verifNondetInt() int
func verifNondetBool() bool
func verifAssume(bool)
func verifAssert(bool, string)
func verifReach(string)
func verifExpectBlock(int)

// reference: parse one line from s starting at pos.
// status: 0 ok, 1 interrupted, 2 incomplete
func zzRefReadLine(s []byte, pos int, junk bool) (line []byte, status int, newPos int) {
	var acc []byte
	for i := pos; i < len(s); i++ {
		c := s[i]
		if c == '\n' {
			if junk && len(acc) > 0 && acc[len(acc)-1] == '\r' {
				acc = acc[:len(acc)-1]
				continue
			}
			return acc, 0, i + 1
		}
		if c == 3 {
			return nil, 1, i + 1
		}
		acc = append(acc, c)
	}
	return nil, 2, len(s)
}

const zzN = 7

func zzH_C03_line() {
	stream := make([]byte, zzN)
	for i := range stream {
		stream[i] = verifNondetByte()
	}
	b := newTrzszBuffer()
	start := 0
	for i := 0; i < zzN; i++ {
		if i == zzN-1 || verifNondetBool() {
			b.addBuffer(stream[start : i+1])
			start = i + 1
		}
	}
	junk := verifNondetBool()
	ref, st, _ := zzRefReadLine(stream, 0, junk)
	if st == 2 {
		verifExpectBlock(2)
	} else {
		verifExpectBlock(1)
	}
	line, err := b.readLine(junk, nil)
	verifExpectBlock(0)
	if st == 2 {
		verifAssert(false, "returned although line incomplete")
		return
	}
	if st == 1 {
		verifAssert(err != nil, "interrupt expected")
		verifReach("interrupted")
		return
	}
	verifAssert(err == nil, "no error expected")
	verifAssert(len(line) == len(ref), "length")
	for i := range ref {
		verifAssert(line[i] == ref[i], "content")
	}
	verifReach("line-ok")
}
