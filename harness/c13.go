package trzsz

import "io"

func verifNondetByte() byte
func verifNondetInt() int
func verifNondetBool() bool
func verifNondetRange(lo, hi int) int
func verifAssume(bool)
func verifAssert(bool, string)
func verifReach(string)
func verifExpectBlock(int)
func verifQuiesce()
func verifLiveThreads() int
func verifBlockForever()

type zzChunks struct {
	chunks [][]byte
	idx    int
}

func (r *zzChunks) Read(p []byte) (int, error) {
	if r.idx >= len(r.chunks) {
		verifBlockForever()
		return 0, io.EOF
	}
	n := copy(p, r.chunks[r.idx])
	r.idx++
	return n, nil
}

func zzH_C13_flushRace() {
	r := &TrzszRelay{
		osStdinChan:    make(chan []byte, 10),
		osStdoutChan:   make(chan []byte, 10),
		bypassTmuxChan: make(chan []byte, 10),
		stdinBuffer:    newTrzszBuffer(),
		stdoutBuffer:   newTrzszBuffer(),
	}
	r.relayStatus.Store(kRelayHandshaking)
	// one chunk was parked before; two more arrive while the handshake worker flushes
	r.stdinBuffer.addBuffer([]byte{65})
	r.clientIn = &zzChunks{chunks: [][]byte{{66}, {67}}}
	go r.wrapInput()
	go r.flushHandshakeBuffer(true)
	verifQuiesce()
	// everything must have reached the server side in order 1,2,3
	verifAssert(len(r.osStdinChan) == 3, "bytes lost or stuck in the handshake queue")
	want := byte(65)
	for len(r.osStdinChan) > 0 {
		b := <-r.osStdinChan
		verifAssert(len(b) == 1 && b[0] == want, "order")
		want++
	}
	verifAssert(r.relayStatus.Load() == kRelayTransferring, "status")
	verifReach("done")
}
