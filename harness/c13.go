package trzsz

// C13 — a relay never loses, duplicates or reorders bytes, under any scheduling.
// The relay's real pumps (wrapInput, wrapOutput), the real handshake worker and the real flush run as threads of the
// executor; with schedule exploration every interleaving at atomic/lock/channel granularity is a path.

import (
	"encoding/json"
	"io"
)

func json13(v interface{}) (string, error) {
	b, err := json.Marshal(v)
	return string(b), err
}

// zzChunks13 is the relay's upstream reader: delivers the given chunks, then stays silent forever.
type zzChunks13 struct {
	chunks [][]byte
	idx    int
}

func (r *zzChunks13) Read(p []byte) (int, error) {
	if r.idx >= len(r.chunks) {
		verifBlockForever()
		return 0, io.EOF
	}
	n := copy(p, r.chunks[r.idx])
	r.idx++
	return n, nil
}

func zzRelay13() *TrzszRelay {
	r := &TrzszRelay{
		osStdinChan:  make(chan []byte, 20),
		osStdoutChan: make(chan []byte, 20),
		stdinBuffer:  newTrzszBuffer(),
		stdoutBuffer: newTrzszBuffer(),
	}
	r.bypassTmuxChan = r.osStdoutChan // not inside tmux: one client-side sink
	r.trigger = &trzszTrigger{}
	return r
}

// zzDrain13 empties a sink channel into one byte string (order preserved).
func zzDrain13(ch chan []byte) []byte {
	var out []byte
	for len(ch) > 0 {
		out = append(out, <-ch...)
	}
	return out
}

func zzExpect13(got, want []byte, label string) {
	verifAssert(len(got) == len(want), label+": bytes lost or duplicated")
	if len(got) == len(want) {
		for i := range want {
			verifAssert(got[i] == want[i], label+": bytes reordered or altered")
		}
	}
}

// client -> server direction: chunks arrive while the handshake worker performs its final flush
func zzH_C13_flushRaceIn() {
	r := zzRelay13()
	r.relayStatus.Store(kRelayHandshaking)
	want := []byte{}
	next := byte('A')
	for i := 0; i < verifBound("PARKED"); i++ {
		r.stdinBuffer.addBuffer([]byte{next})
		want = append(want, next)
		next++
	}
	var chunks [][]byte
	for i := 0; i < verifBound("ARRIVING"); i++ {
		chunks = append(chunks, []byte{next})
		want = append(want, next)
		next++
	}
	r.clientIn = &zzChunks13{chunks: chunks}
	confirm := verifNondetBool()
	var tun *tunnelRelay
	if verifNondetBool() {
		// the relay has paired a tunnel connection, but the client did not report the tunnel as in use (it gave up on
		// it, or its action line was refused): in-band bytes stay in-band
		tun = &tunnelRelay{clientBufChan: make(chan []byte, 20), serverBufChan: make(chan []byte, 20)}
		r.tunnelRelay.Store(tun)
	}
	go r.wrapInput()
	go r.flushHandshakeBuffer(confirm)
	verifQuiesce()
	if tun != nil {
		verifAssert(len(tun.clientBufChan) == 0 && len(tun.serverBufChan) == 0, "in-band bytes went into a tunnel that is not in use")
	}
	zzExpect13(zzDrain13(r.osStdinChan), want, "to server")
	verifAssert(len(r.osStdoutChan) == 0, "client bytes delivered to the client side")
	if confirm {
		verifAssert(r.relayStatus.Load() == kRelayTransferring, "status after a confirmed handshake")
	} else {
		verifAssert(r.relayStatus.Load() == kRelayStandBy, "status after a refused handshake")
	}
	verifAssert(r.stdinBuffer.popBuffer() == nil, "bytes left in the handshake queue")
	verifReach("flushed")
}

// server -> client direction
func zzH_C13_flushRaceOut() {
	r := zzRelay13()
	r.relayStatus.Store(kRelayHandshaking)
	want := []byte{}
	next := byte('a')
	for i := 0; i < verifBound("PARKED"); i++ {
		r.stdoutBuffer.addBuffer([]byte{next})
		want = append(want, next)
		next++
	}
	var chunks [][]byte
	for i := 0; i < verifBound("ARRIVING"); i++ {
		chunks = append(chunks, []byte{next})
		want = append(want, next)
		next++
	}
	r.serverOut = &zzChunks13{chunks: chunks}
	confirm := verifNondetBool()
	tmux := verifNondetBool()
	if tmux {
		// inside tmux (normal mode) the relay has a second client-side sink that by-passes tmux: it carries the output
		// of a running transfer, the ordinary sink everything else
		r.bypassTmuxChan = make(chan []byte, 20)
	}
	go r.wrapOutput()
	go r.flushHandshakeBuffer(confirm)
	verifQuiesce()
	if tmux && confirm {
		zzExpect13(zzDrain13(r.bypassTmuxChan), want, "to client (transfer sink)")
		verifAssert(len(r.osStdoutChan) == 0, "output of a confirmed transfer on the ordinary sink")
	} else {
		zzExpect13(zzDrain13(r.osStdoutChan), want, "to client")
		if tmux {
			verifAssert(len(r.bypassTmuxChan) == 0, "output parked during a refused handshake went to the transfer sink")
		}
	}
	verifAssert(len(r.osStdinChan) == 0, "server bytes delivered to the server side")
	verifAssert(r.stdoutBuffer.popBuffer() == nil, "bytes left in the handshake queue")
	verifReach("flushed")
}

// the flush after the worker consumed a line out of the middle of a chunk: the rest of that chunk goes first
func zzH_C13_partial() {
	r := zzRelay13()
	r.relayStatus.Store(kRelayHandshaking)
	tok := encodeString("x")
	x, y, z := verifNondetByte(), verifNondetByte(), verifNondetByte()
	chunk := append([]byte("#ACT:"+tok+"\n"), x, y)
	// the ACT line and what follows may straddle two reads; the cut is counted from the end, so that the same choice
	// means the same place relative to the line end in the native build (whose codec token is longer)
	cut := len(chunk) - verifNondetRange(0, len(chunk)-1)
	r.stdinBuffer.addBuffer(chunk[:cut])
	if cut < len(chunk) {
		r.stdinBuffer.addBuffer(chunk[cut:])
	}
	r.stdinBuffer.addBuffer([]byte{z})
	verifExpectBlock(1)
	s, err := recvStringFromBuffer(r.stdinBuffer, "ACT", true)
	verifExpectBlock(0)
	verifAssert(err == nil, "ACT line not recognised")
	verifAssert(s == "x", "ACT payload")
	r.flushHandshakeBuffer(true)
	zzExpect13(zzDrain13(r.osStdinChan), []byte{x, y, z}, "to server")
	verifReach("partial")
}

// standby: everything passes unchanged in both directions
func zzH_C13_standby() {
	r := zzRelay13()
	n := verifBound("N")
	in := make([]byte, n)
	out := make([]byte, n)
	for i := 0; i < n; i++ {
		in[i] = verifNondetByte()
		out[i] = verifNondetByte()
		verifAssume(out[i] != ':') // cannot contain the trigger marker "::TRZSZ:TRANSFER:"
	}
	cut := verifNondetRange(1, n)
	r.clientIn = &zzChunks13{chunks: [][]byte{in[:cut], in[cut:]}}
	if cut == n {
		r.clientIn = &zzChunks13{chunks: [][]byte{in}}
	}
	r.serverOut = &zzChunks13{chunks: [][]byte{out}}
	go r.wrapInput()
	go r.wrapOutput()
	verifQuiesce()
	zzExpect13(zzDrain13(r.osStdinChan), in, "to server")
	zzExpect13(zzDrain13(r.osStdoutChan), out, "to client")
	verifAssert(r.relayStatus.Load() == kRelayStandBy, "left standby without a trigger")
	verifReach("standby")
}

// zzGate13 is an upstream reader whose chunks are released by the harness (models a peer that answers what it saw).
type zzGate13 struct{ ch chan []byte }

func (g *zzGate13) Read(p []byte) (int, error) {
	b := <-g.ch
	return copy(p, b), nil
}

func zzHasPrefix13(b []byte, s string) bool {
	return len(b) >= len(s) && string(b[:len(s)]) == s
}

// a whole handshake through the real pumps and the real worker, with a client and a server that answer what they see.
// client: on the trigger sends [ACT line + x] and [y]; server: on the relay's ACT sends [CFG line + p] and [q].
// Every interleaving of input pump, output pump and handshake worker (within the pre-emption bound) is explored.
func zzH_C13_handshake() {
	r := zzRelay13()
	cin := &zzGate13{make(chan []byte, 4)}
	sout := &zzGate13{make(chan []byte, 4)}
	r.clientIn, r.serverOut = cin, sout
	actOK := verifNondetBool()
	cfgOK := verifNondetBool()
	confirmAct := verifNondetBool()
	go r.wrapInput()
	go r.wrapOutput()

	sout.ch <- []byte("::TRZSZ:TRANSFER:S:1.1.5:0000000000100\r\n")
	trig := <-r.osStdoutChan // the client sees the (rewritten) trigger
	verifAssert(len(trig) > 0, "empty trigger chunk")

	// the client answers
	js, err := json13(&transferAction{Lang: "go", Version: "1.1.5", Confirm: confirmAct, Newline: "\n", Protocol: 4, SupportBinary: true, SupportDirectory: true})
	verifAssume(err == nil)
	actLine := "#ACT:" + encodeString(js) + "\n"
	if !actOK {
		actLine = "#ACT:@@@\n"
	}
	cin.ch <- append([]byte(actLine), 'x')
	cin.ch <- []byte{'y'}

	// the server sees what the relay forwards
	first := <-r.osStdinChan
	var toServer []byte
	if actOK {
		verifAssert(zzHasPrefix13(first, "#ACT:"), "server side: first chunk is not the relay's ACT line")
	} else {
		verifAssert(zzHasPrefix13(first, "#FAIL:"), "server side: malformed ACT not answered with FAIL")
	}
	if actOK && confirmAct {
		cjs, err := json13(&transferConfig{Timeout: 20, Newline: "\n", Protocol: 4, MaxBufSize: 1024})
		verifAssume(err == nil)
		cfgLine := "#CFG:" + encodeString(cjs) + "\n"
		if !cfgOK {
			cfgLine = "#CFG:@@@\n"
		}
		sout.ch <- append([]byte(cfgLine), 'p')
		sout.ch <- []byte{'q'}
	}
	verifQuiesce()
	toServer = zzDrain13(r.osStdinChan)
	toClient := zzDrain13(r.osStdoutChan)

	wantServer := []byte{'x', 'y'}
	if actOK && confirmAct && !cfgOK {
		// the relay reports the malformed CFG to the server as a FAIL line; it may come before or between x and y
		// only if it was sent before they were flushed: the worker sends FAIL first, then flushes
		verifAssert(zzHasPrefix13(toServer, "#FAIL:"), "server side: malformed CFG not reported")
		k := 0
		for k < len(toServer) && toServer[k] != '\n' {
			k++
		}
		toServer = toServer[k+1:]
	}
	zzExpect13(toServer, wantServer, "to server")

	if !actOK {
		verifAssert(zzHasPrefix13(toClient, "#FAIL:"), "client side: malformed ACT not reported")
		verifAssert(r.relayStatus.Load() == kRelayStandBy, "status after a failed handshake")
		verifReach("bad-act")
		return
	}
	if !confirmAct {
		verifAssert(len(toClient) == 0, "client side: bytes invented")
		verifAssert(r.relayStatus.Load() == kRelayStandBy, "status after a refused handshake")
		verifReach("refused")
		return
	}
	if cfgOK {
		verifAssert(zzHasPrefix13(toClient, "#CFG:"), "client side: first chunk is not the relay's CFG line")
	} else {
		verifAssert(zzHasPrefix13(toClient, "#FAIL:"), "client side: malformed CFG not reported")
	}
	k := 0
	for k < len(toClient) && toClient[k] != '\n' {
		k++
	}
	zzExpect13(toClient[k+1:], []byte{'p', 'q'}, "to client")
	if cfgOK {
		verifAssert(r.relayStatus.Load() == kRelayTransferring, "status after a confirmed handshake")
		verifReach("confirmed")
	} else {
		verifAssert(r.relayStatus.Load() == kRelayStandBy, "status after a failed handshake")
		verifReach("bad-cfg")
	}
}


// repeated transfers through one relay: a reader that saw the previous transfer's end marker performs its (by now stale)
// reset to standby while the next handshake is already under way with chunks parked and more arriving — the reset
// must not disturb the handshake: everything is still delivered in order after the flush
func zzH_C13_staleReset() {
	r := zzRelay13()
	r.relayStatus.Store(kRelayHandshaking)
	want := []byte{}
	next := byte('a')
	for i := 0; i < verifBound("PARKED"); i++ {
		r.stdoutBuffer.addBuffer([]byte{next})
		want = append(want, next)
		next++
	}
	var chunks [][]byte
	for i := 0; i < verifBound("ARRIVING"); i++ {
		chunks = append(chunks, []byte{next})
		want = append(want, next)
		next++
	}
	r.serverOut = &zzChunks13{chunks: chunks}
	go r.wrapOutput()
	go r.resetToStandby(kRelayTransferring) // the late reader of the previous transfer
	verifQuiesce()
	verifAssert(r.relayStatus.Load() == kRelayHandshaking, "a stale reset of the previous transfer changed the state of the running handshake")
	r.flushHandshakeBuffer(verifNondetBool())
	verifQuiesce()
	zzExpect13(zzDrain13(r.osStdoutChan), want, "to client")
	verifAssert(len(r.osStdinChan) == 0, "server bytes delivered to the server side")
	verifReach("stale-reset")
}
