package trzsz

// C11 — a transfer cannot hang: faults end it with an error, and no worker of the failed transfer is left running.
// The real joining functions sendFileDataV2 / recvFileDataV2 run with ALL their pipeline stages as threads of the
// executor; the harness plays the peer (acks / data frames that stop at a solver-chosen point), the local file
// (read / write error at a solver-chosen call) and the passing of time (armed timers eventually fire).

import (
	"errors"
	"io"
	"os"
)

type zzSink11 struct {
	data   []byte
	failAt int
	writes int
}

func (s *zzSink11) Write(p []byte) (int, error) {
	s.writes++
	if s.failAt > 0 && s.writes >= s.failAt {
		return 0, errors.New("connection write error")
	}
	s.data = append(s.data, p...)
	return len(p), nil
}

// zzFile11: a source file of `size` bytes that hands out `chunk` bytes per Read and fails at the failAt-th Read
// (0 = never); with short != 0 it reaches EOF that many bytes early (the file shrank).
type zzFile11 struct {
	size, pos    int64
	chunk        int
	reads        int
	failAt       int
	short        int64
	closed       bool
}

func (f *zzFile11) Read(p []byte) (int, error) {
	f.reads++
	if f.failAt > 0 && f.reads >= f.failAt {
		return 0, errors.New("read error")
	}
	left := f.size - f.short - f.pos
	if left <= 0 {
		return 0, io.EOF
	}
	n := f.chunk
	if n > len(p) {
		n = len(p)
	}
	if int64(n) > left {
		n = int(left)
	}
	for i := 0; i < n; i++ {
		p[i] = 'd'
	}
	f.pos += int64(n)
	return n, nil
}
func (f *zzFile11) Close() error     { f.closed = true; return nil }
func (f *zzFile11) getFile() *os.File { return nil }
func (f *zzFile11) getSize() int64   { return f.size }

// zzFrames11 parses the DATA frames in what the sender wrote so far and returns the payload length of frame k (or -1).
func zzFrameLen11(data []byte, binary bool, k int) int {
	pos := 0
	for idx := 0; ; idx++ {
		if pos+6 > len(data) || string(data[pos:pos+6]) != "#DATA:" {
			return -1
		}
		pos += 6
		n := 0
		if binary {
			for pos < len(data) && data[pos] != '\n' {
				n = n*10 + int(data[pos]-'0')
				pos++
			}
			if pos >= len(data) {
				return -1
			}
			pos += 1 + n
			if pos > len(data) {
				return -1
			}
		} else {
			for pos < len(data) && data[pos] != '\n' {
				n++
				pos++
			}
			if pos >= len(data) {
				return -1
			}
			pos++
		}
		if idx == k {
			return n
		}
	}
}

func zzItoa11(v int) string {
	if v == 0 {
		return "0"
	}
	var b []byte
	for v > 0 {
		b = append([]byte{byte('0' + v%10)}, b...)
		v /= 10
	}
	return string(b)
}

func zzSettle11() {
	for i := 0; i < 3; i++ {
		verifAdvanceTime() // every armed timeout fires
		verifQuiesce()
	}
}

// sender: peer acknowledges the first ACKS frames (solver's choice), then falls silent / answers wrongly; the source
// file may fail or shrink; the connection may fail
func zzH_C11_send() {
	sink := &zzSink11{failAt: verifNondetRange(0, verifBound("WFAIL"))}
	t := newTransfer(sink, nil, false, nil)
	t.transferConfig.Protocol = 2 + verifNondetRange(0, 1)*2 // 2 or 4
	t.transferConfig.Timeout = 1
	t.transferConfig.Binary = verifBound("BINARY") != 0
	t.transferConfig.MaxBufSize = 8
	t.bufferSize.Store(4)
	size := int64(verifBound("SIZE"))
	file := &zzFile11{size: size, chunk: 3, failAt: verifNondetRange(0, verifBound("RFAIL"))}
	if verifNondetBool() {
		file.short = 1
	}
	done := false
	var rerr error
	go func() {
		_, rerr = t.sendFileDataV2(file, nil)
		done = true
	}()
	verifQuiesce()
	acks := verifNondetRange(0, verifBound("ACKS"))
	step := 0
	badAck := false
	for k := 0; k < acks; k++ {
		n := zzFrameLen11(sink.data, t.transferConfig.Binary, k)
		if n < 0 {
			break // the sender has not produced that frame (it is waiting or has failed)
		}
		step += n
		if verifNondetBool() {
			t.addReceivedData([]byte("#SUCC:"+zzItoa11(n+1)+"/"+zzItoa11(step)+"\n"), false) // wrong length echo
			badAck = true
			verifReach("bad-ack")
		} else {
			t.addReceivedData([]byte("#SUCC:"+zzItoa11(n)+"/"+zzItoa11(step)+"\n"), false)
		}
		verifQuiesce()
	}
	finalAck := false
	if verifNondetBool() {
		t.addReceivedData([]byte("#SUCC:"+zzItoa11(int(size))+"\n"), false) // final "all saved" ack
		finalAck = true
		verifQuiesce()
	}
	zzSettle11() // the peer is silent from here on
	verifAssert(done, "sendFileDataV2 did not return although the peer has been silent beyond the timeout")
	if verifBound("LEAKCHECK") != 0 {
		verifAssertNoLiveThreads("worker left running after the transfer function returned")
	}
	if rerr == nil {
		verifAssert(finalAck, "success reported without the peer's final saved==size acknowledgement")
		verifAssert(!badAck, "success reported although a chunk's length echo was wrong")
		verifAssert(file.short == 0, "success reported for a source file that shrank")
		verifReach("success")
	} else {
		verifReach("error")
	}
}

type zzWriter11 struct {
	data   []byte
	failAt int
	writes int
	closed bool
	gate   chan struct{} // a slow disk: the failing write reports its error only once the gate is opened
}

func (w *zzWriter11) Write(p []byte) (int, error) {
	w.writes++
	if w.failAt > 0 && w.writes >= w.failAt {
		if w.gate != nil {
			<-w.gate
		}
		return 0, errors.New("disk write error")
	}
	w.data = append(w.data, p...)
	return len(p), nil
}
func (w *zzWriter11) Close() error     { w.closed = true; return nil }
func (w *zzWriter11) getFile() *os.File { return nil }

// receiver: the peer sends FRAMES data frames (solver's choice how many, and whether the finish frame follows),
// then falls silent; the destination may fail; the connection may fail
func zzH_C11_recv() {
	sink := &zzSink11{failAt: verifNondetRange(0, verifBound("WFAIL"))}
	t := newTransfer(sink, nil, false, nil)
	t.transferConfig.Protocol = 2 + verifNondetRange(0, 1)*2
	t.transferConfig.Timeout = 1
	t.transferConfig.Binary = true
	size := int64(verifBound("SIZE"))
	w := &zzWriter11{failAt: verifNondetRange(0, verifBound("DFAIL"))}
	if verifBoundOr("SLOWFAIL", 0) != 0 && w.failAt > 0 {
		w.gate = make(chan struct{})
	}
	done := false
	var rerr error
	go func() {
		_, rerr = t.recvFileDataV2(w, size, nil)
		done = true
	}()
	verifQuiesce()
	frames := verifNondetRange(0, verifBound("FRAMES"))
	sent := 0
	for k := 0; k < frames; k++ {
		n := 2
		if int64(sent+n) > size && verifNondetBool() {
			n = int(size) - sent // exactly the announced size
		}
		if n <= 0 {
			break
		}
		frame := []byte("#DATA:" + zzItoa11(n) + "\n")
		for i := 0; i < n; i++ {
			frame = append(frame, 'p')
		}
		cut := len(frame)
		if k == 0 {
			cut = verifNondetRange(1, len(frame)) // the first frame arrives in two reads, cut anywhere
		}
		t.addReceivedData(frame[:cut], false)
		if cut < len(frame) {
			t.addReceivedData(frame[cut:], false)
		}
		sent += n
		verifQuiesce()
	}
	if verifNondetBool() {
		t.addReceivedData([]byte("#DATA:0\n"), false) // finish frame
		verifQuiesce()
	}
	if w.gate != nil {
		// the failing write is still pending while the other stages go on (the acknowledgement stage polls the
		// saved-bytes counter every 200 ms); then the disk reports the error
		verifAdvanceMs(250)
		verifQuiesce()
		close(w.gate)
		verifQuiesce()
	}
	zzSettle11()
	verifAssert(done, "recvFileDataV2 did not return although the peer has been silent beyond the timeout")
	if verifBound("LEAKCHECK") != 0 {
		verifAssertNoLiveThreads("worker left running after the transfer function returned")
	}
	verifAssert(w.closed, "destination file not closed")
	if rerr == nil {
		verifAssert(int64(len(w.data)) == size, "success reported for a file of the wrong length")
		verifReach("success")
	} else {
		verifReach("error")
	}
}


// zzLink11: one direction of the connection between two transfers; everything from message `silentFrom` on is lost
type zzLink11 struct {
	peer       *trzszTransfer
	n          int
	silentFrom int // 0 = never
}

func (l *zzLink11) Write(p []byte) (int, error) {
	l.n++
	if l.silentFrom > 0 && l.n >= l.silentFrom {
		return len(p), nil
	}
	c := make([]byte, len(p))
	copy(c, p)
	l.peer.addReceivedData(c, false)
	return len(p), nil
}

// the stop-and-wait loops of protocol 1 (old peers): sender and receiver back to back; the source may shrink or fail at
// some read, the destination may fail at some write, either direction may go silent from some message on. Both loops
// return after finitely many steps and within the time-outs, with an error unless everything was transferred.
func zzH_C11_oldLoops() {
	S := newTransfer(nil, nil, false, nil)
	R := newTransfer(nil, nil, false, nil)
	toR := &zzLink11{peer: R, silentFrom: verifNondetRange(0, verifBound("SILENT"))}
	toS := &zzLink11{peer: S}
	if toR.silentFrom == 0 {
		toS.silentFrom = verifNondetRange(0, verifBound("SILENT"))
	}
	S.writer, R.writer = toR, toS
	binary := verifNondetBool()
	for _, t := range []*trzszTransfer{S, R} {
		t.transferConfig.Protocol = 1
		t.transferConfig.Timeout = 1
		t.transferConfig.Binary = binary
		t.transferConfig.MaxBufSize = 1024
	}
	size := int64(verifBound("SIZE"))
	file := &zzFile11{size: size, chunk: 3, failAt: verifNondetRange(0, verifBound("RFAIL"))}
	if verifNondetBool() {
		file.short = 1
	}
	w := &zzWriter11{failAt: verifNondetRange(0, verifBound("DFAIL"))}
	sdone, rdone := false, false
	var serr, rerr error
	go func() { _, serr = S.sendFileData(file, nil); sdone = true }()
	go func() { _, rerr = R.recvFileData(w, size, nil); rdone = true }()
	verifQuiesce()
	zzSettle11()
	verifAssert(sdone, "the protocol-1 sender did not return")
	verifAssert(rdone, "the protocol-1 receiver did not return")
	faulty := file.short != 0 || file.failAt != 0 || w.failAt != 0 || toR.silentFrom != 0 || toS.silentFrom != 0
	if !faulty {
		verifAssert(serr == nil, "sender failed without a fault")
		verifAssert(rerr == nil, "receiver failed without a fault")
		verifAssert(int64(len(w.data)) == size, "bytes lost without a fault")
		verifReach("old-ok")
		return
	}
	if serr == nil {
		verifAssert(file.short == 0, "sender reports success for a source that shrank")
	}
	if rerr == nil {
		verifAssert(int64(len(w.data)) == size, "receiver reports success for an incomplete file")
	}
	verifReach("old-fault")
}
