package trzsz

import "context"

func verifNondetByte() byte
func verifNondetInt() int
func verifNondetBool() bool
func verifNondetRange(lo, hi int) int
func verifAssume(bool)
func verifAssert(bool, string)
func verifReach(string)
func verifExpectBlock(int)
func verifQuiesce()
func verifLiveThreads() int

func zzH_C11_encode() {
	t := newTransfer(nil, nil, false, nil)
	t.transferConfig.Binary = true
	t.bufferSize.Store(4)
	c, cancel := context.WithCancelCause(context.Background())
	ctx := &pipelineContext{c, cancel, make(chan struct{}, 1)}
	fileDataChan := make(chan []byte, 100)
	sendDataChan := t.pipelineEncodeData(ctx, fileDataChan, false)
	fileDataChan <- make([]byte, 6)
	verifQuiesce()
	acked := verifNondetBool()
	if acked {
		// the ack stage saw the chunk's ack (what pipelineRecvAck does in the init phase)
		t.bufInitWG.Done()
		verifReach("acked")
	} else {
		verifReach("peer-silent")
	}
	ctx.cancel(simpleTrzszError("other stage failed"))
	close(fileDataChan)
	verifQuiesce()
	verifAssert(verifLiveThreads() == 0, "encode stage still blocked after cancellation")
	_ = sendDataChan
}
