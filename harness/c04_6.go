package trzsz

import "io"

func verifNondetByte() byte
func verifNondetInt() int
func verifNondetBool() bool
func verifAssume(bool)
func verifAssert(bool, string)
func verifReach(string)
func verifExpectBlock(int)

func zzMkTable(pairs [][2]byte) *escapeTable {
	t := &escapeTable{totalCount: len(pairs), escapeCodes: make([]*byte, 256), unescapeCodes: make([]*byte, 256)}
	for i := range pairs {
		a := new(byte)
		*a = pairs[i][0]
		b := new(byte)
		*b = pairs[i][1]
		t.escapeCodes[pairs[i][0]] = b
		t.unescapeCodes[pairs[i][1]] = a
	}
	return t
}

func zzBuiltin() [][2]byte { return [][2]byte{{0xee, 0xee}, {0x7e, 0x31}} }
func zzBuiltinAll() [][2]byte { return [][2]byte{{0xee, 0xee}, {0x7e, 0x31}, {0x02, 'A'}, {0x0d, 'B'}, {0x10, 'C'}, {0x11, 'D'}, {0x13, 'E'}, {0x18, 'F'}, {0x1b, 'G'}, {0x1d, 'H'}, {0x8d, 'I'}, {0x90, 'J'}, {0x91, 'K'}, {0x93, 'L'}, {0x9d, 'M'}} }

const zzN = 6

func zzRoundtrip(t *escapeTable, protected []byte) {
	data := make([]byte, zzN)
	for i := range data {
		data[i] = verifNondetByte()
	}
	esc := escapeData(data, t)
	for _, c := range esc {
		for _, p := range protected {
			verifAssert(c != p, "protected byte on wire")
		}
	}
	out, rem, err := unescapeData(esc, t, nil)
	verifAssert(err == nil, "unescape error")
	verifAssert(len(rem) == 0, "remaining")
	verifAssert(len(out) == zzN, "length")
	for i := range data {
		verifAssert(out[i] == data[i], "content")
	}
	verifReach("roundtrip")
}

func zzH_C04_builtin() {
	zzRoundtrip(zzMkTable(zzBuiltin()), []byte{0x7e})
}

func zzH_C04_builtinAll() {
	zzRoundtrip(zzMkTable(zzBuiltinAll()), []byte{0x7e, 0x02, 0x0d, 0x10, 0x11, 0x13, 0x18, 0x1b, 0x1d, 0x8d, 0x90, 0x91, 0x93, 0x9d})
}

// arbitrary well-formed table: leader escaped, 2 more symbolic entries, injective, codes not protected
func zzH_C04_symtable() {
	b1, c1, b2, c2 := verifNondetByte(), verifNondetByte(), verifNondetByte(), verifNondetByte()
	verifAssume(b1 != 0xee && b2 != 0xee && b1 != b2)
	verifAssume(c1 != 0xee && c2 != 0xee && c1 != c2)
	verifAssume(c1 != b1 && c1 != b2 && c2 != b1 && c2 != b2)
	t := zzMkTable([][2]byte{{0xee, 0xee}, {b1, c1}, {b2, c2}})
	zzRoundtrip(t, []byte{b1, b2})
}

type zzChunkReader struct {
	data []byte
	pos  int
}

func (r *zzChunkReader) Read(p []byte) (int, error) {
	if r.pos >= len(r.data) {
		return 0, io.EOF
	}
	n := verifNondetInt()
	verifAssume(n >= 1 && n <= len(r.data)-r.pos && n <= len(p))
	copy(p, r.data[r.pos:r.pos+n])
	r.pos += n
	return n, nil
}

const zzM = 3

func zzH_C04_stream() {
	t := zzMkTable(zzBuiltin())
	data := make([]byte, zzM)
	for i := range data {
		data[i] = verifNondetByte()
	}
	esc := escapeData(data, t)
	rd := newEscapeReader(t, &zzChunkReader{data: esc})
	var out []byte
	for k := 0; k < 2*zzM+2; k++ {
		sz := verifNondetInt()
		verifAssume(sz >= 1 && sz <= 2)
		p := make([]byte, sz)
		n, err := rd.Read(p)
		if err == io.EOF {
			verifAssert(n == 0, "n with EOF")
			break
		}
		verifAssert(err == nil, "read error")
		verifAssert(n >= 1 && n <= sz, "n range")
		out = append(out, p[:n]...)
	}
	verifAssert(len(out) == zzM, "stream length")
	for i := range data {
		verifAssert(out[i] == data[i], "stream content")
	}
	verifReach("stream")
}
