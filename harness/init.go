package trzsz

func verifReach(string)

func zzH_init() {
	init()
	verifReach("init done")
}
