package trzsz

func verifNondetByte() byte
func verifNondetBool() bool
func verifNondetRange(lo, hi int) int
func verifAssume(bool)
func verifAssert(bool, string)
func verifReach(string)

func zzDigit() byte {
	d := verifNondetByte()
	verifAssume(d >= '0')
	verifAssume(d <= '9')
	return d
}

// positive grammar: prefix(2 symbolic bytes) ESC 7 BEL ::TRZSZ:TRANSFER:<mode>:<d>.<d>.<dd>:<13 digits>[:<port 4 digits>] CR LF
func zzH_C06_positive() {
	var buf []byte
	p0, p1 := verifNondetByte(), verifNondetByte()
	buf = append(buf, p0, p1, 0x1b, '7', 7)
	buf = append(buf, "::TRZSZ:TRANSFER:"...)
	mode := verifNondetByte()
	verifAssume(mode == 'S' || mode == 'R' || mode == 'D')
	v0, v1, v2, v3 := zzDigit(), zzDigit(), zzDigit(), zzDigit()
	buf = append(buf, mode, ':', v0, '.', v1, '.', v2, v3, ':')
	var id []byte
	for i := 0; i < 11; i++ {
		id = append(id, byte('0'+i%10))
	}
	s0, s1 := zzDigit(), zzDigit()
	id = append(id, s0, s1)
	buf = append(buf, id...)
	hasPort := verifNondetBool()
	port := 0
	if hasPort {
		buf = append(buf, ':')
		for i := 0; i < 4; i++ {
			d := zzDigit()
			buf = append(buf, d)
			port = port*10 + int(d-'0')
		}
	}
	buf = append(buf, '\r', '\n')
	in := make([]byte, len(buf))
	copy(in, buf)
	det := newTrzszDetector(false, false)
	out, trig := det.detectTrzsz(buf, false)
	verifAssert(trig != nil, "trigger not detected")
	if trig == nil {
		return
	}
	verifAssert(trig.mode == mode, "mode")
	verifAssert(trig.version[0] == uint32(v0-'0') && trig.version[1] == uint32(v1-'0') && trig.version[2] == uint32(v2-'0')*10+uint32(v3-'0'), "version")
	verifAssert(len(trig.uniqueID) == 13, "id length")
	verifAssert(trig.uniqueID[11] == s0 && trig.uniqueID[12] == s1, "id suffix")
	verifAssert(trig.tunnelPort == port, "port")
	verifAssert(trig.winServer == (s0 == '1' && s1 == '0'), "winServer")
	verifAssert(len(out) == len(in)+2, "rewritten length")
	// a second wrapper must not react to what is shown locally
	det2 := newTrzszDetector(false, false)
	_, trig2 := det2.detectTrzsz(out, false)
	verifAssert(trig2 == nil, "rewritten trigger still triggers")
	// replay of the same chunk: only tmux / windows ids are de-duplicated
	_, trig3 := det.detectTrzsz(in, false)
	if s1 == '0' && (s0 == '1' || s0 == '2') {
		verifAssert(trig3 == nil, "repeated id started a second transfer")
		verifReach("dedup")
	}
	verifReach("positive")
}
