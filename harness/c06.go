package trzsz

// C06 — a trigger starts exactly one transfer; look-alikes and replays start none.
// Triggers are generated from the grammar trz/tsz print (ESC 7 BEL ::TRZSZ:TRANSFER:<mode>:<ver>:<id>[:<port>] CR LF)
// with symbolic prefix bytes, mode, version digits, id suffix digits and port digits; the real detector (through
// the regexp model) must report exactly those fields.

func zzDigit6() byte {
	d := verifNondetByte()
	verifAssume(d >= '0')
	verifAssume(d <= '9')
	return d
}

// zzLongerIDs: also generate 14-digit ids (set by the harnesses whose oracle is written for them)
var zzLongerIDs bool

type zzTrig6 struct {
	buf      []byte
	mode     byte
	ver      [3]uint32
	id       []byte
	port     int
	hasPort  bool
	trigAt   int // offset of "::TRZSZ"
}

// zzMakeTrigger appends one generated trigger to buf.
func zzMakeTrigger(buf []byte, longID bool) zzTrig6 { return zzMakeTriggerX(buf, longID, false) }

// plain = fixed mode, version and no port: only the id varies (used for histories)
func zzMakeTriggerX(buf []byte, longID bool, plain bool) zzTrig6 {
	var t zzTrig6
	if plain {
		buf = append(buf, "\x1b7\x07"...)
		t.trigAt = len(buf)
		buf = append(buf, "::TRZSZ:TRANSFER:S:1.1.5:"...)
		t.mode, t.ver = 'S', [3]uint32{1, 1, 5}
		for i := 0; i < 11; i++ {
			t.id = append(t.id, byte('0'+i%10))
		}
		t.id = append(t.id, zzDigit6(), zzDigit6())
		buf = append(buf, t.id...)
		buf = append(buf, '\r', '\n')
		t.buf = buf
		return t
	}
	buf = append(buf, 0x1b, '7', 7)
	t.trigAt = len(buf)
	buf = append(buf, "::TRZSZ:TRANSFER:"...)
	t.mode = verifNondetByte()
	verifAssume(t.mode == 'S' || t.mode == 'R' || t.mode == 'D')
	buf = append(buf, t.mode, ':')
	for c := 0; c < 3; c++ {
		nd := 1
		if c == 2 {
			nd = verifNondetRange(1, 2)
		}
		v := uint32(0)
		for i := 0; i < nd; i++ {
			d := zzDigit6()
			v = v*10 + uint32(d-'0')
			buf = append(buf, d)
		}
		t.ver[c] = v
		if c < 2 {
			buf = append(buf, '.')
		}
	}
	buf = append(buf, ':')
	if longID {
		for i := 0; i < 11; i++ {
			t.id = append(t.id, byte('0'+i%10))
		}
		t.id = append(t.id, zzDigit6(), zzDigit6())
		if zzLongerIDs && verifNondetBool() {
			t.id = append(t.id, zzDigit6()) // ids may have more than 13 digits
		}
	} else {
		n := verifNondetRange(1, 3)
		for i := 0; i < n; i++ {
			t.id = append(t.id, zzDigit6())
		}
	}
	buf = append(buf, t.id...)
	t.hasPort = verifNondetBool()
	if t.hasPort {
		buf = append(buf, ':')
		nd := verifNondetRange(1, 5)
		for i := 0; i < nd; i++ {
			d := zzDigit6()
			buf = append(buf, d)
			t.port = t.port*10 + int(d-'0')
		}
	}
	buf = append(buf, '\r', '\n')
	t.buf = buf
	return t
}

func zzPrefix6(n int) []byte {
	var buf []byte
	for i := 0; i < n; i++ {
		buf = append(buf, verifNondetByte())
	}
	return buf
}

func zzCheckTrigger(trig *trzszTrigger, t zzTrig6) {
	verifAssert(trig != nil, "trigger not detected")
	if trig == nil {
		return
	}
	verifAssert(trig.mode == t.mode, "mode")
	verifAssert(trig.version[0] == t.ver[0], "version major")
	verifAssert(trig.version[1] == t.ver[1], "version minor")
	verifAssert(trig.version[2] == t.ver[2], "version patch")
	verifAssert(trig.uniqueID == string(t.id), "unique id")
	verifAssert(trig.tunnelPort == t.port, "port")
	win := (len(t.id) == 1 && t.id[0] == '1') || (len(t.id) == 13 && t.id[11] == '1' && t.id[12] == '0')
	_ = zzLongerIDs
	verifAssert(trig.winServer == win, "windows-server flag")
}

func zzClone6(b []byte) []byte {
	c := make([]byte, len(b))
	copy(c, b)
	return c
}

// client mode: exactly the advertised fields; shown locally in a form a second wrapper ignores; redraw suppression
func zzH_C06_client() {
	t := zzMakeTrigger(zzPrefix6(verifBound("PREFIX")), verifNondetBool())
	in := zzClone6(t.buf)
	det := newTrzszDetector(false, false)
	out, trig := det.detectTrzsz(t.buf, false)
	zzCheckTrigger(trig, t)
	if trig == nil {
		return
	}
	// shown locally with every TRZSZ -> TRZSZGO: a second wrapper further along must not react
	verifAssert(len(out) == len(in)+2, "local rendering: length")
	det2 := newTrzszDetector(false, false)
	out2, trig2 := det2.detectTrzsz(zzClone6(out), false)
	verifAssert(trig2 == nil, "local rendering still triggers a second wrapper")
	verifAssert(len(out2) == len(out), "second wrapper modified a non-trigger")
	// the same chunk again (a redraw): only tmux / Windows ids (13 digits ending 10 or 20) are remembered
	_, trig3 := det.detectTrzsz(zzClone6(in), false)
	if len(t.id) == 13 && t.id[12] == '0' && (t.id[11] == '1' || t.id[11] == '2') {
		verifAssert(trig3 == nil, "redraw repeating a seen id started a second transfer")
		verifReach("redraw-suppressed")
	}
	verifReach("client")
}

// relay mode: forwarded in a form the real client still recognises (same fields), marked as relayed
func zzH_C06_relay() {
	zzLongerIDs = true
	t := zzMakeTrigger(zzPrefix6(verifBound("PREFIX")), verifNondetBool())
	in := zzClone6(t.buf)
	tmux := verifNondetBool()
	det := newTrzszDetector(true, tmux)
	out, trig := det.detectTrzsz(t.buf, false)
	want := t
	if n := len(t.id); tmux && n >= 13 && t.id[n-2] == '0' && t.id[n-1] == '0' {
		want.id = append(zzClone6(t.id[:n-2]), '2', '0') // ids of 13+ digits ending 00 are re-tagged as seen through tmux
	}
	zzCheckTrigger(trig, want)
	if trig == nil {
		return
	}
	verifAssert(len(out) == len(in)+2, "relayed rendering: length")
	marked := false
	for i := 0; i+1 < len(out); i++ {
		if out[i] == '#' && out[i+1] == 'R' {
			marked = true
		}
	}
	verifAssert(marked, "relayed trigger not marked")
	// composition: the client's detector on the relay's output yields the same transfer
	det2 := newTrzszDetector(false, false)
	_, trig2 := det2.detectTrzsz(zzClone6(out), false)
	zzCheckTrigger(trig2, want)
	verifReach("relay")
}

// any proper truncation of a trigger (cut inside mode / version, or before 24 bytes) starts nothing and changes nothing
func zzH_C06_truncated() {
	t := zzMakeTrigger(nil, true)
	full := t.buf[t.trigAt:]
	// cut somewhere before the version is complete: "::TRZSZ:TRANSFER:M:d.d." has 23 bytes
	cut := verifNondetRange(1, 22)
	pre := zzPrefix6(verifBound("PREFIX"))
	for _, c := range pre {
		verifAssume(c != ':')
	}
	buf := append(pre, full[:cut]...)
	pad := []int{0, 1, 9, 30}[verifNondetRange(0, 3)]
	for i := 0; i < pad; i++ {
		buf = append(buf, ' ')
	}
	in := zzClone6(buf)
	det := newTrzszDetector(verifNondetBool(), false)
	out, trig := det.detectTrzsz(buf, false)
	verifAssert(trig == nil, "truncated trigger started a transfer")
	verifAssert(len(out) == len(in), "non-trigger output modified")
	for i := range in {
		verifAssert(out[i] == in[i], "non-trigger output modified")
	}
	verifReach("truncated")
}

// scroll-back of a finished transfer: a trigger followed (beyond offset 40) by a transcript word starts nothing
func zzH_C06_transcript() {
	t := zzMakeTrigger(nil, true)
	words := []string{"#CFG:", "Saved", "Cancelled", "Stopped", "Interrupted"}
	w := words[verifNondetRange(0, 4)]
	buf := t.buf
	gap := verifNondetRange(0, 6)
	for i := 0; i < gap; i++ {
		buf = append(buf, ' ')
	}
	buf = append(buf, w...)
	buf = append(buf, '\r', '\n')
	in := zzClone6(buf)
	det := newTrzszDetector(verifNondetBool(), false)
	out, trig := det.detectTrzsz(buf, false)
	if len(t.buf)-t.trigAt+gap >= 40 {
		verifAssert(trig == nil, "scroll-back of a finished transfer started a new one")
		verifAssert(len(out) == len(in), "scroll-back output modified")
		verifReach("suppressed")
	} else {
		verifReach("too-close") // a word that close is still inside the trigger's own line: not claimed
	}
}

// an earlier (complete or partial) trigger literal in the same read does not change which trigger fires: the last one
func zzH_C06_earlier() {
	firstBuf := []byte("\x1b7\x07::TRZSZ:TRANSFER:R:1.1.3:0000000000310:1234\r\n")
	cut := len(firstBuf)
	if verifNondetBool() {
		cut = 3 + verifNondetRange(17, 24)
	}
	second := zzMakeTrigger(zzClone6(firstBuf[:cut]), true)
	det := newTrzszDetector(false, false)
	out, trig := det.detectTrzsz(second.buf, false)
	zzCheckTrigger(trig, second)
	// what is shown locally must not make a second wrapper start anything, earlier trigger text included
	det2 := newTrzszDetector(false, false)
	_, trig2 := det2.detectTrzsz(zzClone6(out), false)
	verifAssert(trig2 == nil, "local rendering still triggers a second wrapper")
	verifReach("earlier")
}

// histories: fresh ids fire, repeated tmux/Windows ids do not
func zzH_C06_history() {
	det := newTrzszDetector(false, false)
	var seen [][]byte
	for k := 0; k < verifBound("HIST"); k++ {
		t := zzMakeTriggerX(nil, true, true)
		verifAssume(t.id[12] == '0') // role suffixes trz/tsz generate: 00 plain, 10 Windows, 20 tmux
		verifAssume(t.id[11] <= '2')
		_, trig := det.detectTrzsz(t.buf, false)
		remembered := t.id[12] == '0' && (t.id[11] == '1' || t.id[11] == '2')
		repeated := false
		for _, s := range seen {
			if string(s) == string(t.id) {
				repeated = true
			}
		}
		if repeated && remembered {
			verifAssert(trig == nil, "repeated id started a second transfer")
			verifReach("repeat-suppressed")
		} else {
			zzCheckTrigger(trig, t)
			verifReach("fresh")
		}
		if remembered {
			seen = append(seen, t.id)
		}
	}
}

// tmux control-mode framing: without a tunnel (or without a port) the framed trigger starts nothing
func zzH_C06_control() {
	pane := zzDigit6()
	pre := []byte("%output %")
	pre = append(pre, pane, ' ')
	t := zzMakeTrigger(pre, true)
	tunnel := verifNondetBool()
	det := newTrzszDetector(false, false)
	_, trig := det.detectTrzsz(t.buf, tunnel)
	if !tunnel || !t.hasPort {
		verifAssert(trig == nil, "control-mode framed trigger started a transfer without a tunnel")
		verifReach("control-vetoed")
	} else {
		zzCheckTrigger(trig, t)
		if trig != nil {
			verifAssert(trig.tmuxPrefix == string(pre), "control-mode prefix")
		}
		verifReach("control-tunnel")
	}
}


// "arbitrary other output before it in the same read": a long prefix that itself contains the words of a finished
// transfer (the tail of the previous transfer, `ls` showing "Saved Games", a job table with "Stopped") in front of a
// fresh trigger — the trigger still starts its transfer, in client and in relay mode
func zzH_C06_afterOutput() {
	words := []string{"#CFG:", "Saved", "Cancelled", "Stopped", "Interrupted"}
	var prefix []byte
	fill := verifNondetRange(0, 1) * verifBound("FILL") // the words right at the start of the read, or beyond the look-ahead distance
	for i := 0; i < fill; i++ {
		prefix = append(prefix, 'x')
	}
	prefix = append(prefix, words[verifNondetRange(0, 4)]...)
	prefix = append(prefix, ' ')
	prefix = append(prefix, zzPrefix6(verifBound("PREFIX"))...)
	t := zzMakeTrigger(prefix, verifNondetBool())
	relay := verifNondetBool()
	det := newTrzszDetector(relay, false)
	_, trig := det.detectTrzsz(t.buf, false)
	zzCheckTrigger(trig, t)
	verifReach("after-output")
}


// ids of other lengths than the 13 digits trz/tsz print today (older servers: 7..12 digits, no role suffix; 14 digits
// and more behind a chain of relays): every one of them is a tmux / Windows id, so a redraw of the same line starts
// nothing whatever its last two digits are; a different id of the same length does start its transfer
func zzH_C06_oldIds() {
	n := verifNondetRange(7, 14)
	verifAssume(n != 13)
	var id []byte
	for i := 0; i < n-2; i++ {
		id = append(id, byte('1'+i%9))
	}
	id = append(id, zzDigit6(), zzDigit6())
	line := append([]byte("\x1b7\x07::TRZSZ:TRANSFER:S:1.1.5:"), id...)
	line = append(line, '\r', '\n')
	relay := verifNondetBool()
	det := newTrzszDetector(relay, false)
	_, trig := det.detectTrzsz(zzClone6(line), false)
	verifAssert(trig != nil, "first sighting of an id did not start a transfer")
	if trig != nil {
		verifAssert(trig.uniqueID == string(id), "unique id")
	}
	_, again := det.detectTrzsz(zzClone6(line), false)
	verifAssert(again == nil, "a redraw repeating an already seen id started a second transfer")
	verifReach("old-id-redraw")
}
