package trzsz

func verifNondetByte() byte
func verifNondetInt() int
func verifNondetBool() bool
func verifNondetRange(lo, hi int) int
func verifAssume(bool)
func verifAssert(bool, string)
func verifReach(string)
func verifExpectBlock(int)

const zzX = 5

// three lines in one chunk: "a!" LF? "b!" then zzX symbolic bytes (letters, LF, space) and a final "!"
func zzH_C16_threeLines() {
	chunk := make([]byte, 0, zzX+8)
	chunk = append(chunk, 'a', '!')
	if verifNondetBool() {
		chunk = append(chunk, '\n')
	}
	chunk = append(chunk, 'b', '!')
	var want []byte
	for i := 0; i < zzX; i++ {
		c := verifNondetByte()
		k := verifNondetRange(0, 2)
		if k == 0 {
			verifAssume(isTrzszLetter(c))
			want = append(want, c)
		} else if k == 1 {
			verifAssume(c == '\n')
		} else {
			verifAssume(c == ' ')
		}
		chunk = append(chunk, c)
	}
	chunk = append(chunk, '!')
	verifAssume(len(want) > 0)
	b := newTrzszBuffer()
	b.addBuffer(chunk)
	verifExpectBlock(1)
	l1, err := b.readLineOnWindows(nil)
	verifAssert(err == nil && len(l1) == 1 && l1[0] == 'a', "first line")
	l2, err := b.readLineOnWindows(nil)
	verifAssert(err == nil && len(l2) == 1 && l2[0] == 'b', "second line")
	l3, err := b.readLineOnWindows(nil)
	verifExpectBlock(0)
	verifAssert(err == nil, "third line error")
	verifAssert(len(l3) == len(want), "third line length")
	for i := range want {
		verifAssert(l3[i] == want[i], "third line content")
	}
	verifReach("three-lines")
}

const zzP = 3

// W1: padding and CSI sequences between payload letters (no LF, so the re-print rule is not in play)
func zzH_C16_winNoise() {
	var stream []byte
	var want []byte
	for i := 0; i < zzP; i++ {
		k := verifNondetRange(0, 2)
		if k == 1 {
			pad := verifNondetByte()
			verifAssume(!isTrzszLetter(pad) && pad != 0x1b && pad != 3 && pad != '!' && pad != '\n')
			stream = append(stream, pad)
		} else if k == 2 {
			d := verifNondetByte()
			verifAssume(d >= '0' && d <= '9' || d == ';' || d == '?')
			f := verifNondetByte()
			verifAssume(isVT100End(f))
			stream = append(stream, 0x1b, '[', d, f)
		}
		c := verifNondetByte()
		verifAssume(isTrzszLetter(c))
		stream = append(stream, c)
		want = append(want, c)
	}
	stream = append(stream, '!')
	b := newTrzszBuffer()
	cut := verifNondetRange(1, len(stream))
	b.addBuffer(stream[:cut])
	if cut < len(stream) {
		b.addBuffer(stream[cut:])
	}
	verifExpectBlock(1)
	l, err := b.readLineOnWindows(nil)
	verifExpectBlock(0)
	verifAssert(err == nil, "error")
	verifAssert(len(l) == len(want), "length")
	for i := range want {
		verifAssert(l[i] == want[i], "content")
	}
	verifReach("win-noise")
}
