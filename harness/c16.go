package trzsz

// C16 — protocol lines survive the noise tmux and the Windows console add.
// The payload alphabet and every noise grammar below are written from the property text and the documented console
// captures, independently of the code's own predicates.

type zzNop16 struct{}

func (zzNop16) Write(p []byte) (int, error) { return len(p), nil }

// zzIsLetter: the protocol alphabet [A-Za-z0-9#:+/=]
func zzIsLetter(c byte) bool {
	if c >= 'a' && c <= 'z' {
		return true
	}
	if c >= 'A' && c <= 'Z' {
		return true
	}
	if c >= '0' && c <= '9' {
		return true
	}
	return c == '#' || c == ':' || c == '+' || c == '/' || c == '='
}

func zzIsAlpha(c byte) bool {
	if c >= 'a' && c <= 'z' {
		return true
	}
	return c >= 'A' && c <= 'Z'
}

func zzLetter() byte {
	c := verifNondetByte()
	verifAssume(zzIsLetter(c))
	return c
}

func zzSame16(got, want []byte) {
	verifAssert(len(got) == len(want), "length")
	for i := range want {
		verifAssert(got[i] == want[i], "content")
	}
}

// the control strings tmux emits around a status-line redraw (captured form: a DCS pair with cursor controls between)
const zzStatus = "\x1bP=1s\x1b\\\x1b[?25l\x1b[?12l\x1b[?25h\x1b[5 q\x1bP=2s\x1b\\"

// tmux: unrelated text before the marker, a CR LF wrap in every gap (also directly before the terminator and at
// position 0), one status string at any gap after the marker
func zzH_C16_tmux() {
	t := newTransfer(zzNop16{}, nil, false, nil)
	t.transferConfig.TmuxOutputJunk = true
	nl := verifBound("L")
	payload := []byte{'#', 'S', ':'}
	for i := 0; i < nl; i++ {
		c := zzLetter()
		verifAssume(c != '#')
		payload = append(payload, c)
	}
	var stream []byte
	// unrelated text in front of the marker may itself hold half of a status-line update: its unfinished head, or the
	// tail of one whose head went by before this line began
	switch verifNondetRange(0, 2) {
	case 1:
		stream = append(stream, "\x1bP=1s"...)
	case 2:
		stream = append(stream, "\x1bP=2s\x1b\\"...)
	}
	for i := 0; i < verifBound("JUNK"); i++ {
		if verifNondetBool() {
			j := verifNondetByte()
			verifAssume(j != '\n')
			verifAssume(j != '\r')
			verifAssume(j != 3)
			verifAssume(j != '#')
			verifAssume(j != 0x1b)
			stream = append(stream, j)
		}
	}
	statusAt := verifNondetRange(3, len(payload)+1) // len+1 = no status string
	for i, c := range payload {
		if verifNondetBool() {
			stream = append(stream, '\r', '\n')
		}
		if i == statusAt {
			stream = append(stream, zzStatus...)
		}
		stream = append(stream, c)
	}
	if statusAt == len(payload) {
		stream = append(stream, zzStatus...)
	}
	if verifNondetBool() {
		stream = append(stream, '\r', '\n')
	}
	stream = append(stream, '\n')
	cut := len(stream)
	if verifBound("CUT") != 0 {
		cut = verifNondetRange(1, len(stream)) // the decorated line arrives in one or two reads, cut anywhere
	}
	t.buffer.addBuffer(stream[:cut])
	if cut < len(stream) {
		t.buffer.addBuffer(stream[cut:])
	}
	verifExpectBlock(1)
	line, err := t.recvLine("S", false, nil)
	verifExpectBlock(0)
	verifAssert(err == nil, "error")
	zzSame16(line, payload)
	verifReach("tmux")
}

// a Ctrl-C anywhere before the terminator interrupts, in both readers, whatever surrounds it
func zzH_C16_ctrlC() {
	n := verifBound("N")
	win := verifNondetBool()
	at := verifNondetRange(0, n-1)
	stream := make([]byte, 0, n+2)
	for i := 0; i < n; i++ {
		c := verifNondetByte()
		if i == at {
			verifAssume(c == 3)
		} else if win {
			verifAssume(c != '!')
		} else {
			verifAssume(c != '\n')
		}
		stream = append(stream, c)
	}
	if win {
		stream = append(stream, '!')
	} else {
		stream = append(stream, '\n')
	}
	t := newTransfer(zzNop16{}, nil, false, nil)
	t.transferConfig.TmuxOutputJunk = !win
	t.windowsProtocol = win
	cut := verifNondetRange(1, len(stream))
	t.buffer.addBuffer(stream[:cut])
	if cut < len(stream) {
		t.buffer.addBuffer(stream[cut:])
	}
	verifExpectBlock(1)
	_, err := t.recvLine("S", false, nil)
	verifExpectBlock(0)
	verifAssert(err != nil, "Ctrl-C did not interrupt")
	if err != nil {
		verifAssert(err.Error() == "Interrupted", "wrong error for Ctrl-C")
	}
	verifReach("ctrl-c")
}

// Windows, three lines in one read: "a!" LF? "b!" then X symbolic bytes (letters, LF, space) and a final "!"
func zzH_C16_threeLines() {
	x := verifBound("X")
	chunk := make([]byte, 0, x+8)
	chunk = append(chunk, 'a', '!')
	if verifNondetBool() {
		chunk = append(chunk, '\n')
	}
	chunk = append(chunk, 'b', '!')
	var want []byte
	for i := 0; i < x; i++ {
		c := verifNondetByte()
		k := verifNondetRange(0, 2)
		if k == 0 {
			verifAssume(zzIsLetter(c))
			want = append(want, c)
		} else if k == 1 {
			verifAssume(c == '\n')
		} else {
			verifAssume(c == ' ')
		}
		chunk = append(chunk, c)
	}
	chunk = append(chunk, '!')
	verifAssume(len(want) > 0)
	b := newTrzszBuffer()
	b.addBuffer(chunk)
	verifExpectBlock(1)
	l1, err := b.readLineOnWindows(nil)
	verifAssert(err == nil, "first line error")
	zzSame16(l1, []byte{'a'})
	l2, err := b.readLineOnWindows(nil)
	verifAssert(err == nil, "second line error")
	zzSame16(l2, []byte{'b'})
	l3, err := b.readLineOnWindows(nil)
	verifExpectBlock(0)
	verifAssert(err == nil, "third line error")
	zzSame16(l3, want)
	verifReach("three-lines")
}

func zzCutFeed(stream []byte) *trzszBuffer {
	b := newTrzszBuffer()
	cut := verifNondetRange(1, len(stream))
	b.addBuffer(stream[:cut])
	if cut < len(stream) {
		b.addBuffer(stream[cut:])
	}
	return b
}

// W1: padding bytes and CSI sequences (colour, cursor) between payload letters; '!' may occur inside a CSI
func zzH_C16_winNoise() {
	var stream []byte
	var want []byte
	for i := 0; i < verifBound("P"); i++ {
		k := verifNondetRange(0, 2)
		if k == 1 {
			pad := verifNondetByte()
			verifAssume(!zzIsLetter(pad))
			verifAssume(pad != 0x1b)
			verifAssume(pad != 3)
			verifAssume(pad != '!')
			verifAssume(pad != '\n')
			stream = append(stream, pad)
		} else if k == 2 {
			d := verifNondetByte()
			verifAssume(!zzIsAlpha(d))
			verifAssume(d >= 0x20)
			verifAssume(d < 0x40)
			verifAssume(d != '!')
			f := verifNondetByte()
			verifAssume(zzIsAlpha(f))
			stream = append(stream, 0x1b, '[', d, f)
		}
		c := zzLetter()
		stream = append(stream, c)
		want = append(want, c)
	}
	stream = append(stream, '!')
	b := zzCutFeed(stream)
	verifExpectBlock(1)
	l, err := b.readLineOnWindows(nil)
	verifExpectBlock(0)
	verifAssert(err == nil, "error")
	zzSame16(l, want)
	verifReach("win-noise")
}

func zzPad(stream []byte) []byte {
	if verifNondetBool() {
		p := verifNondetByte()
		verifAssume(!zzIsLetter(p))
		verifAssume(p != 0x1b)
		verifAssume(p != 3)
		verifAssume(p != '!')
		verifAssume(p != '\n')
		stream = append(stream, p)
	}
	return stream
}

func zzDigit() byte {
	d := verifNondetByte()
	verifAssume(d >= '0')
	verifAssume(d <= '9')
	return d
}

// W2: the last letter is re-printed after LF + cursor positioning ("8 CR LF ESC[25;119H 8")
func zzH_C16_winReprint() {
	nl := verifBound("L")
	letters := make([]byte, nl)
	for i := range letters {
		letters[i] = zzLetter()
	}
	at := verifNondetRange(0, nl-1) // after which letter the re-print happens
	var stream []byte
	for i, c := range letters {
		stream = append(stream, c)
		if i == at {
			stream = zzPad(stream)
			stream = append(stream, '\r', '\n')
			stream = zzPad(stream)
			stream = append(stream, 0x1b, '[', zzDigit(), ';', zzDigit(), 'H', c)
		}
	}
	stream = append(stream, '!')
	b := zzCutFeed(stream)
	verifExpectBlock(1)
	l, err := b.readLineOnWindows(nil)
	verifExpectBlock(0)
	verifAssert(err == nil, "error")
	zzSame16(l, letters)
	verifReach("reprint")
}

// W3: a junk letter printed at cursor home, replaced after a cursor move + LF ("o ESC[H p ESC[60;238H CR LF p7bu8!")
func zzH_C16_winHome() {
	l0, l1, l2, x := zzLetter(), zzLetter(), zzLetter(), zzLetter()
	var stream []byte
	stream = append(stream, l0)
	stream = zzPad(stream)
	stream = append(stream, 0x1b, '[', 'H', x, 0x1b, '[', zzDigit(), ';', zzDigit(), 'H')
	stream = zzPad(stream)
	stream = append(stream, '\r', '\n', l1, l2, '!')
	b := zzCutFeed(stream)
	verifExpectBlock(1)
	l, err := b.readLineOnWindows(nil)
	verifExpectBlock(0)
	verifAssert(err == nil, "error")
	zzSame16(l, []byte{l0, l1, l2})
	verifReach("home")
}


// W5: the documented kinds of Windows noise mixed in one line — before each payload letter one of: nothing, a padding
// byte, a CSI sequence (cursor positioning "ESC [ d H" without a line feed included), a line wrap (CR LF, optionally
// followed by a CSI that is not a cursor positioning), or a re-print of the previous letter (CR LF ESC[d;dH + letter)
func zzH_C16_winMix() {
	var stream, want []byte
	for i := 0; i < verifBound("P"); i++ {
		c := zzLetter()
		k := verifNondetRange(0, 4)
		switch k {
		case 1:
			stream = zzPad(stream)
		case 2:
			d := verifNondetByte()
			verifAssume(d >= '0')
			verifAssume(d <= '9' || d == ';' || d == '?')
			verifAssume(d <= '?')
			f := verifNondetByte()
			verifAssume(zzIsAlpha(f))
			stream = append(stream, 0x1b, '[', d, f)
		case 3:
			stream = append(stream, '\r', '\n')
			if verifNondetBool() {
				f := verifNondetByte()
				verifAssume(zzIsAlpha(f))
				verifAssume(f != 'H')
				stream = append(stream, 0x1b, '[', zzDigit(), f)
			}
		case 4:
			if i > 0 {
				stream = append(stream, '\r', '\n', 0x1b, '[', zzDigit(), ';', zzDigit(), 'H', want[len(want)-1])
			}
		}
		stream = append(stream, c)
		want = append(want, c)
	}
	stream = append(stream, '!')
	var b *trzszBuffer
	if verifBound("NOCUT") == 1 {
		b = newTrzszBuffer()
		b.addBuffer(stream)
	} else {
		b = zzCutFeed(stream)
	}
	verifExpectBlock(1)
	l, err := b.readLineOnWindows(nil)
	verifExpectBlock(0)
	verifAssert(err == nil, "error")
	zzSame16(l, want)
	verifReach("win-mix")
}


// the text in front of the line's marker may be a partial earlier print of the very same line (a console repaint, a
// redraw after a resize): the first k bytes of the line, an erase / carriage return, then the whole line — both the
// tmux reader and the Windows reader deliver the whole line
func zzH_C16_front() {
	payload := []byte{'#', 'S', ':'}
	for i := 0; i < verifBound("L"); i++ {
		c := zzLetter()
		verifAssume(c != '#')
		payload = append(payload, c)
	}
	k := verifNondetRange(0, len(payload))
	t := newTransfer(zzNop16{}, nil, false, nil)
	var stream []byte
	stream = append(stream, payload[:k]...)
	if verifNondetBool() {
		t.windowsProtocol = true
		if verifNondetBool() {
			stream = append(stream, 0x1b, '[', '2', 'K')
		}
		stream = append(stream, '\r')
		stream = append(stream, payload...)
		stream = append(stream, '!', '\n')
	} else {
		t.transferConfig.TmuxOutputJunk = true
		stream = append(stream, payload...)
		stream = append(stream, '\n')
	}
	cut := verifNondetRange(1, len(stream))
	t.buffer.addBuffer(stream[:cut])
	if cut < len(stream) {
		t.buffer.addBuffer(stream[cut:])
	}
	verifExpectBlock(1)
	line, err := t.recvLine("S", false, nil)
	verifExpectBlock(0)
	verifAssert(err == nil, "error")
	zzSame16(line, payload)
	verifReach("front")
}
