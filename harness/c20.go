package trzsz

// C20 — the progress line always fits the terminal and never misreports.
// A: ellipsis contract on names of abstract runes with symbolic display widths; B: the layout ladder for every
// width 5..500; C: the callback state machine over arbitrary int64 arguments (every render sees 0 <= step <= size);
// D: the bar for every length and every valid (step, size). Float expressions are replaced by a contract stub.

import (
	"math"
	"strconv"
)

type zzSink20 struct{ data []byte }

func (s *zzSink20) Write(p []byte) (int, error) {
	s.data = append(s.data, p...)
	return len(p), nil
}

// A — getEllipsisString: reported width = real width <= max, for names of K runes of width 0/1/2 each
func zzH_C20_ellipsis() {
	name := verifAbstractName(verifBound("K"))
	max := verifNondetRange(4, 60)
	s, w := getEllipsisString(name, max)
	verifAssert(w == verifDisplayWidth(s), "reported width differs from the real width")
	verifAssert(w <= max, "shortened name wider than asked")
	verifAssert(w >= 3, "ellipsis dots missing")
	verifReach("ellipsis")
}

// B — layout ladder: whatever the name, the counts and the field lengths, the line fits the width
func zzH_C20_layout() {
	p := &textProgressBar{}
	cols := verifNondetRange(5, 500)
	p.columns.Store(int32(cols))
	p.fileCount = verifNondetRange(1, 9999)
	p.fileIdx = verifNondetRange(1, 9999)
	p.fileName = verifAbstractName(verifBound("RUNES"))
	p.fileSize = int64(verifNondetInt())
	p.fileStep = int64(verifNondetInt())
	verifAssume(p.fileSize >= 0)
	verifAssume(p.fileStep >= 0)
	verifAssume(p.fileStep <= p.fileSize)
	percentage := verifOpaqueASCII(2, 4)
	total := verifOpaqueASCII(4, 10)
	speed := verifOpaqueASCII(7, 12)
	eta := verifOpaqueASCII(7, 12)
	out := p.getProgressText(percentage, total, speed, eta)
	verifAssert(verifDisplayWidth(out) <= cols, "progress line wider than the terminal")
	verifReach("layout")
}

// D — the bar: rendering never fails whatever step and size it is handed; for every valid position the cells fill the bar
func zzH_C20_bar() {
	p := &textProgressBar{}
	p.fileSize = int64(verifNondetInt())
	p.fileStep = int64(verifNondetInt())
	length := verifNondetInt()
	verifAssume(length >= -1000)
	verifAssume(length <= 1000)
	bar := p.getProgressBar(length) // a Go panic here (negative Repeat count) is the violation
	if length < 12 {
		verifAssert(len(bar) == 0, "bar drawn although there is no room")
		verifReach("no-bar")
		return
	}
	verifAssert(verifDisplayWidth(bar) == length, "bar does not fill its length")
	verifReach("bar")
}

// C — the callback state machine in the order the transfer code drives it: onNum, then per file onName, onSize and
// any sequence of onStep(any int64: repeats, regressions, values beyond the size, negative) / resume(m) =
// setPreSize(m)+onSize(size-m) / onDone. Whenever a line is rendered the position lies within 0..size (percentage
// 0..100, drawable bar) and the position shown never decreases within a file.
func zzH_C20_state() {
	sink := &zzSink20{}
	p := newTextProgressBar(sink, int32(verifNondetRange(5, 200)), 0, "", "")
	p.onNum(int64(verifNondetRange(1, 3)))
	lastShown := int64(-1)
	size := int64(0)
	call := func(rendering bool, f func()) {
		before := len(sink.data)
		failed := false
		func() {
			defer func() {
				if r := recover(); r != nil {
					failed = true
				}
			}()
			f()
		}()
		if failed || (rendering && len(sink.data) > before) {
			verifAssert(p.fileStep >= 0, "rendered with a negative position")
			if p.fileSize != 0 {
				verifAssert(p.fileStep <= p.fileSize, "rendered with a position beyond the size (percentage > 100, negative bar)")
			}
			verifAssert(p.fileStep >= lastShown, "position shown decreased within a file")
			lastShown = p.fileStep
			verifReach("rendered")
		}
		verifAssert(!failed, "rendering failed")
	}
	for file := 0; file < verifBound("FILES"); file++ {
		call(false, func() { p.onName("f") })
		lastShown = -1
		size = int64(verifNondetInt())
		verifAssume(size >= 0)
		verifAssume(size <= 1<<62)
		call(false, func() { p.onSize(size) })
		for k := 0; k < verifBound("CALLS"); k++ {
			switch verifNondetRange(0, 2) {
			case 0:
				step := int64(verifNondetInt())
				call(true, func() { p.onStep(step) })
			case 1:
				m := int64(verifNondetInt())
				verifAssume(m >= 0)
				verifAssume(m <= size)
				call(false, func() { p.setPreSize(m); p.onSize(size - m) })
			case 2:
				call(true, func() { p.onDone() })
			}
		}
	}
	verifReach("state")
}


type zzChunks20 struct{ chunks [][]byte }

func (s *zzChunks20) Write(p []byte) (int, error) {
	c := make([]byte, len(p))
	copy(c, p)
	s.chunks = append(s.chunks, c)
	return len(p), nil
}

// the number printed in front of the first '%' of a rendered line
func zzPercent20(line []byte) (int64, bool) {
	i := 0
	for i < len(line) && line[i] != '%' {
		i++
	}
	if i >= len(line) {
		return 0, false
	}
	j := i
	for j > 0 && line[j-1] != ' ' && line[j-1] != '\r' {
		j--
	}
	v, err := strconv.ParseInt(string(line[j:i]), 10, 64)
	return v, err == nil
}

// E — the percentage of the REAL rendering (showProgress is executed, not stubbed): for every size 1..2^62 and every
// non-decreasing sequence of positions within the file, each line drawn shows a percentage within 0..100 that does not
// decrease, and the final line shows 100. Columns 5..13, so that the line is just the percentage (no bar, no name).
// The float expressions on the way are contract stubs (§ DESIGN): what is decided exactly is any integer arithmetic
// in the percentage, the throttle, the position bookkeeping, and the text assembly.
func zzH_C20_percent() {
	sink := &zzChunks20{}
	p := newTextProgressBar(sink, int32(verifNondetRange(5, 13)), 0, "", "")
	p.onNum(1)
	p.onName("f")
	size := int64(verifNondetInt())
	verifAssume(size >= 1)
	verifAssume(size <= 1<<62)
	p.onSize(size)
	lastStep, lastPct := int64(0), int64(0)
	check := func(final bool) {
		line := sink.chunks[len(sink.chunks)-1]
		pct, ok := zzPercent20(line)
		verifAssert(ok, "no percentage in the rendered line")
		verifAssert(pct >= 0, "negative percentage")
		verifAssert(pct <= 100, "percentage above 100")
		verifAssert(pct >= lastPct, "percentage decreased within a file")
		if final {
			verifAssert(pct == 100, "a completed file is not shown as 100%")
		}
		lastPct = pct
		verifReach("percent")
	}
	for k := 0; k < verifBound("CALLS"); k++ {
		step := int64(verifNondetInt())
		verifAssume(step >= lastStep)
		verifAssume(step <= size)
		lastStep = step
		verifAdvanceTime() // beyond the redraw throttle
		n := len(sink.chunks)
		p.onStep(step)
		if len(sink.chunks) > n {
			check(false)
		}
	}
	n := len(sink.chunks)
	p.onDone()
	verifAssert(len(sink.chunks) > n, "completion not rendered")
	if len(sink.chunks) > n {
		check(true)
	}
}


// F — the size and duration formatters on extreme values (0, tiny, 2^50 and beyond, infinities, NaN, negative): they
// return (no endless loop, no crash). Float comparisons are free in the symbolic build, so every branch combination of
// the formatters is walked; a loop that can go round for ever shows up as an exceeded unwinding bound and is then
// confirmed natively with the listed values.
func zzH_C20_converters() {
	vals := []float64{0, 0.5, 1023, 1024, 1 << 50, 1 << 62, 1e300, math.Inf(1), math.Inf(-1), math.NaN(), -1}
	f := vals[verifNondetRange(0, len(vals)-1)]
	if verifNondetBool() {
		s := convertSizeToString(f)
		verifAssert(len(s) > 0, "empty size string")
	} else {
		s := convertTimeToString(f)
		verifAssert(len(s) > 0, "empty duration string")
	}
	verifReach("converted")
}
