package trzsz

func verifNondetRange(lo, hi int) int
func verifNondetInt() int
func verifAssume(bool)
func verifAssert(bool, string)
func verifReach(string)
func verifAbstractName(k int) string
func verifOpaqueASCII(lo, hi int) string
func verifDisplayWidth(s string) int

const zzRunes = 28

func zzH_C20_layout() {
	p := &textProgressBar{}
	cols := verifNondetRange(5, 500)
	p.columns.Store(int32(cols))
	p.fileCount = 1
	p.fileIdx = 1
	p.fileName = verifAbstractName(verifNondetRange(0, zzRunes))
	p.fileSize = int64(verifNondetInt())
	p.fileStep = int64(verifNondetInt())
	verifAssume(p.fileSize >= 0)
	verifAssume(p.fileStep >= 0)
	verifAssume(p.fileStep <= p.fileSize)
	percentage := verifOpaqueASCII(2, 4)
	total := verifOpaqueASCII(4, 10)
	speed := verifOpaqueASCII(7, 12)
	eta := verifOpaqueASCII(7, 12)
	out := p.getProgressText(percentage, total, speed, eta)
	verifAssert(verifDisplayWidth(out) <= cols, "progress line wider than the terminal")
	verifReach("layout")
}

// rendering must not fail whatever step/size it is handed
func zzH_C20_anyStep() {
	p := &textProgressBar{}
	p.columns.Store(int32(verifNondetRange(5, 500)))
	p.fileCount = 1
	p.fileIdx = 1
	p.fileName = "x"
	p.fileSize = int64(verifNondetInt())
	p.fileStep = int64(verifNondetInt())
	verifAssume(p.fileSize >= 0)
	verifAssume(p.fileStep >= 0)
	out := p.getProgressText("100%", "1.00 KB", "1.00 KB/s", "00:01 ETA")
	_ = out
	verifReach("anystep")
}

const zzK = 56

func zzH_C20_ellipsis() {
	name := verifAbstractName(zzK)
	s, w := getEllipsisString(name, 50)
	verifAssert(w == verifDisplayWidth(s), "reported width differs from the real width")
	verifAssert(w <= 50, "ellipsis result wider than asked")
	verifReach("ellipsis")
}
