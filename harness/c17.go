package trzsz

import (
	"errors"
	"io"
	"net"
	"time"
)

func verifNondetByte() byte
func verifNondetBool() bool
func verifNondetRange(lo, hi int) int
func verifAssume(bool)
func verifAssert(bool, string)
func verifReach(string)
func verifQuiesce()
func verifBlockForever()

type zzAddr struct{}

func (zzAddr) Network() string { return "tcp" }
func (zzAddr) String() string  { return "stub" }

type zzConn struct {
	first  []byte
	reads  int
	closed bool
	wrote  int
}

func (c *zzConn) Read(p []byte) (int, error) {
	if c.reads == 0 {
		c.reads++
		return copy(p, c.first), nil
	}
	c.reads++
	verifBlockForever()
	return 0, io.EOF
}
func (c *zzConn) Write(p []byte) (int, error)        { c.wrote += len(p); return len(p), nil }
func (c *zzConn) Close() error                       { c.closed = true; return nil }
func (c *zzConn) LocalAddr() net.Addr                { return zzAddr{} }
func (c *zzConn) RemoteAddr() net.Addr               { return zzAddr{} }
func (c *zzConn) SetDeadline(t time.Time) error      { return nil }
func (c *zzConn) SetReadDeadline(t time.Time) error  { return nil }
func (c *zzConn) SetWriteDeadline(t time.Time) error { return nil }

type zzListener struct {
	conns  []*zzConn
	idx    int
	closed bool
}

func (l *zzListener) Accept() (net.Conn, error) {
	if l.closed {
		return nil, errors.New("closed")
	}
	if l.idx >= len(l.conns) {
		verifBlockForever()
		return nil, errors.New("closed")
	}
	c := l.conns[l.idx]
	l.idx++
	return c, nil
}
func (l *zzListener) Close() error   { l.closed = true; return nil }
func (l *zzListener) Addr() net.Addr { return zzAddr{} }

type zzNop17 struct{}

func (zzNop17) Write(p []byte) (int, error) { return len(p), nil }

func zzH_C17_accept() {
	hello, _ := getHelloConstant("1234567890120", 5555)
	t := newTransfer(zzNop17{}, nil, false, nil)
	// attacker: same length as the greeting, arbitrary content (may or may not equal it);
	// or a shorter prefix of the right greeting (greeting split across writes)
	var a []byte
	if verifNondetBool() {
		a = make([]byte, len(hello))
		for i := range a {
			a[i] = verifNondetByte()
		}
	} else {
		a = []byte(hello[:verifNondetRange(0, len(hello)-1)])
	}
	ca := &zzConn{first: a}
	cb := &zzConn{first: []byte(hello)}
	var l *zzListener
	if verifNondetBool() {
		l = &zzListener{conns: []*zzConn{ca, cb}}
	} else {
		l = &zzListener{conns: []*zzConn{cb, ca}}
	}
	t.acceptOnTunnel(l, "1234567890120", 5555)
	verifQuiesce()
	aIsGenuine := string(a) == hello
	pumped := 0
	if ca.reads > 1 {
		pumped++
	}
	if cb.reads > 1 {
		pumped++
	}
	verifAssert(pumped <= 1, "more than one connection adopted")
	if !aIsGenuine {
		verifAssert(ca.reads <= 1, "unauthenticated connection feeds the transfer")
		verifAssert(ca.wrote == 0, "unauthenticated connection got an answer")
		verifAssert(ca.closed || ca.reads == 0, "unauthenticated connection left open")
		verifReach("attacker-rejected")
	}
	adopted := t.tunnelConn.Load()
	if adopted != nil {
		verifAssert(pumped == 1, "adopted but not pumped")
		verifReach("adopted")
	}
}
