package trzsz

// C17 — only the authenticated tunnel connection is ever used, and only one.

import (
	"errors"
	"io"
	"net"
	"sync/atomic"
	"time"
)

type zzAddr struct{}

func (zzAddr) Network() string { return "tcp" }
func (zzAddr) String() string  { return "stub" }

// zzConn: first Read returns `first`, second Read returns `payload` (if any), then the connection stays silent.
type zzConn struct {
	first   []byte
	payload []byte
	reads   int
	closed  bool
	wrote   []byte
	werr    bool
}

// a read from a socket is a system call: other goroutines run before it and between its completion and whatever the
// caller does with the bytes (a scheduling point for the explorer on both sides of the copy)
var zzSysCall17 atomic.Int32

func (c *zzConn) Read(p []byte) (int, error) {
	c.reads++
	if c.reads == 1 {
		zzSysCall17.Add(1)
		n := copy(p, c.first)
		zzSysCall17.Add(1)
		return n, nil
	}
	if c.reads == 2 && len(c.payload) > 0 {
		zzSysCall17.Add(1)
		n := copy(p, c.payload)
		zzSysCall17.Add(1)
		return n, nil
	}
	verifBlockForever()
	return 0, io.EOF
}
func (c *zzConn) Write(p []byte) (int, error) {
	if c.werr {
		return 0, errors.New("write error")
	}
	c.wrote = append(c.wrote, p...)
	return len(p), nil
}
func (c *zzConn) Close() error                       { c.closed = true; return nil }
func (c *zzConn) LocalAddr() net.Addr                { return zzAddr{} }
func (c *zzConn) RemoteAddr() net.Addr               { return zzAddr{} }
func (c *zzConn) SetDeadline(t time.Time) error      { return nil }
func (c *zzConn) SetReadDeadline(t time.Time) error  { return nil }
func (c *zzConn) SetWriteDeadline(t time.Time) error { return nil }

type zzListener struct {
	conns  []*zzConn
	idx    int
	closed bool
}

func (l *zzListener) Accept() (net.Conn, error) {
	if l.closed {
		return nil, errors.New("closed")
	}
	if l.idx >= len(l.conns) {
		verifBlockForever()
		return nil, errors.New("closed")
	}
	c := l.conns[l.idx]
	l.idx++
	return c, nil
}
func (l *zzListener) Close() error   { l.closed = true; return nil }
func (l *zzListener) Addr() net.Addr { return zzAddr{} }

type zzSink17 struct{ data []byte }

func (s *zzSink17) Write(p []byte) (int, error) {
	s.data = append(s.data, p...)
	return len(p), nil
}

const zzUID17 = "1234567890120"
const zzPort17 = 5555

// an attacker's greeting: same length as the real one with arbitrary bytes (may even equal it), a proper prefix
// (greeting split across writes / right prefix, wrong id), the greeting plus one byte, or nothing at all
func zzAttackerFirst(hello string) []byte {
	switch verifNondetRange(0, 3) {
	case 0:
		a := make([]byte, len(hello))
		for i := range a {
			a[i] = verifNondetByte()
		}
		return a
	case 1:
		return []byte(hello[:verifNondetRange(0, len(hello)-1)])
	case 2:
		return append([]byte(hello), verifNondetByte())
	}
	b := []byte(hello)
	i := verifNondetRange(0, len(hello)-1)
	c := verifNondetByte()
	verifAssume(c != b[i])
	b[i] = c
	return b
}

func zzH_C17_accept() {
	hello, reply := getHelloConstant(zzUID17, zzPort17)
	t := newTransfer(&zzSink17{}, nil, false, nil)
	ca := &zzConn{first: zzAttackerFirst(hello), payload: []byte{'X'}}
	cb := &zzConn{first: []byte(hello), payload: []byte{'G'}}
	conns := []*zzConn{ca, cb}
	if verifNondetBool() {
		conns = []*zzConn{cb, ca}
	}
	if verifBound("CONNS") >= 3 {
		cc := &zzConn{first: []byte(hello), payload: []byte{'H'}} // a second correctly greeted connection
		k := verifNondetRange(0, 2)
		conns = append(conns[:k], append([]*zzConn{cc}, conns[k:]...)...)
	}
	l := &zzListener{conns: conns}
	t.acceptOnTunnel(l, zzUID17, zzPort17)
	verifQuiesce()
	aIsGenuine := string(ca.first) == hello
	pumped := 0
	for _, c := range conns {
		if c.reads > 1 {
			pumped++
		}
	}
	verifAssert(pumped <= 1, "more than one connection adopted")
	if !aIsGenuine {
		verifAssert(ca.reads <= 1, "unauthenticated connection feeds the transfer")
		verifAssert(len(ca.wrote) == 0, "unauthenticated connection got an answer")
		verifAssert(ca.closed || ca.reads == 0, "unauthenticated connection left open")
		verifReach("attacker-rejected")
	}
	// whatever reached the transfer's input came from the adopted connection only
	adopted := t.tunnelConn.Load()
	var got []byte
	for {
		b := t.buffer.popBuffer()
		if b == nil {
			break
		}
		got = append(got, b...)
	}
	if adopted == nil {
		verifAssert(len(got) == 0, "bytes reached the transfer without an adopted connection")
	} else {
		ac := (*adopted).(*zzConn)
		verifAssert(string(ac.first) == hello, "adopted connection did not present the greeting")
		verifAssert(string(ac.wrote) == reply, "adopted connection was not answered with the server greeting")
		verifAssert(len(got) <= 1, "bytes from more than one connection reached the transfer")
		if len(got) == 1 {
			verifAssert(got[0] == ac.payload[0], "bytes from a connection other than the adopted one reached the transfer")
		}
		verifAssert(pumped == 1, "adopted but not read")
		verifReach("adopted")
	}
}

// the client side: connector outcomes nil / wrong reply / right reply / write error, and the grace timer
func zzH_C17_connect() {
	hello, reply := getHelloConstant(zzUID17, zzPort17)
	sink := &zzSink17{}
	t := newTransfer(sink, nil, false, nil)
	outcome := verifNondetRange(0, 3)
	var conn *zzConn
	switch outcome {
	case 1:
		conn = &zzConn{first: []byte(reply), payload: []byte{'G'}}
	case 2:
		r := make([]byte, len(reply))
		for i := range r {
			r[i] = verifNondetByte()
		}
		conn = &zzConn{first: r, payload: []byte{'X'}}
	case 3:
		conn = &zzConn{first: []byte(reply), werr: true}
	}
	late := verifNondetBool() // the connector returns only after the grace period
	gate := make(chan bool, 1)
	t.connectToTunnel(func(port int) net.Conn {
		verifAssert(port == zzPort17, "connector called with a different port")
		if late {
			<-gate
		}
		if conn == nil {
			return nil
		}
		return conn
	}, zzUID17, zzPort17)
	verifQuiesce()
	verifAdvanceTime() // the one-second grace period elapses
	verifQuiesce()
	gate <- true
	verifQuiesce()
	err := t.sendAction(true, nil, false)
	verifAssert(err == nil, "sendAction failed")
	adopted := t.tunnelConn.Load()
	genuine := conn != nil && !conn.werr && string(conn.first) == reply && !late
	if adopted != nil {
		verifAssert(genuine, "a connection that did not answer with the server greeting was adopted")
		verifAssert(t.tunnelConnected, "adopted but not announced")
		verifAssert(len(sink.data) == 0, "ACT sent in-band although the tunnel is in use")
		verifAssert(len(conn.wrote) > len(hello), "ACT not sent through the tunnel")
		verifReach("tunnel")
	} else {
		verifAssert(!t.tunnelConnected, "tunnel announced without a connection")
		verifAssert(len(sink.data) > 0, "no in-band ACT although there is no tunnel")
		if conn != nil {
			verifAssert(conn.closed, "rejected connection left open")
			verifAssert(conn.reads <= 1, "rejected connection feeds the transfer")
		}
		if late {
			verifReach("late")
		}
		verifReach("in-band")
	}
}

// once both ends agreed on the tunnel, in-band terminal bytes are ignored; tunnel bytes are not
func zzH_C17_inband() {
	t := newTransfer(&zzSink17{}, nil, false, nil)
	t.tunnelConnected = verifNondetBool()
	viaTunnel := verifNondetBool()
	b := verifNondetByte()
	t.addReceivedData([]byte{b}, viaTunnel)
	got := t.buffer.popBuffer()
	if t.tunnelConnected && !viaTunnel {
		verifAssert(got == nil, "in-band bytes reached the transfer although the tunnel is in use")
		verifReach("dropped")
	} else {
		verifAssert(len(got) == 1 && got[0] == b, "bytes lost")
		verifReach("kept")
	}
}
