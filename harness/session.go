package trzsz

// Whole-session co-simulation with message-indexed events. The real client wrapper (TrzszFilter: wrapOutput,
// handleTrzsz, downloadFiles/uploadFiles) runs against the real server-side logic of tsz/trz (sendFiles/recvFiles);
// the two byte streams between them pass through hooks that count the protocol messages and, at a solver-chosen
// message index, inject one event: the user stops the transfer, a side falls silent, a message is damaged, the user
// pauses. Used by the C02, C10, C11 and C18 session runs.

import "sync/atomic"

const (
	zzEvNone = iota
	zzEvStopClient
	zzEvStopDeleteClient
	zzEvStopServer
	zzEvSilenceToClient // everything the server sends from message k on is lost
	zzEvSilenceToServer
	zzEvDamageToClient // one byte of message k (server -> client) is replaced
	zzEvDamageToServer
	zzEvPauseClient // the user pauses the transfer (stop/continue question) just before the k-th server message
	zzEvDropToClient // message k (server -> client) is lost as a whole
	zzEvDropToServer
	zzEvDupToClient // message k (server -> client) is delivered twice
	zzEvDupToServer
)

type zzSess struct {
	f        *TrzszFilter
	V        *trzszTransfer
	toClient chan []byte
	term     *zzCap5
	event    int
	at       int // message index (counted per direction) at which the event happens
	at2      int // second pause (C18, PAUSES=2); -1 none
	pendingStop int // C10: 1 = plain stop, 2 = stop-and-delete still to be chosen in the (paused) question
	everPaused bool
	nToC     int
	nToS     int
	fired    bool
	dmgPos   int
	dmgByte  byte
	paused   *trzszTransfer
	pauseTicks int
	wire     []byte // every byte the client wrote to the connection
	escapeAll bool
}

var zzPauseTicks int
var zzPauseKind int
var zzPauseOwn bool       // C18: the pause begins just before the client's own k-th message instead of the server's
var zzStopAfterPause bool // C10: as in the real client, the stop choice is made while the transfer is paused for the question

type zzSessToClient struct{ s *zzSess } // the server's writer
type zzSessToServer struct{ s *zzSess } // the wrapper's remote-side writer

func (s *zzSess) fire() {
	if s.fired {
		return
	}
	s.fired = true
	switch s.event {
	case zzEvStopClient, zzEvStopDeleteClient:
		if t := s.f.transfer.Load(); t != nil {
			if zzStopAfterPause {
				t.pauseTransferringFiles() // Ctrl-C: the transfer pauses while the user is asked
				s.paused = t
				s.pendingStop = 1
				if s.event == zzEvStopDeleteClient {
					s.pendingStop = 2
				}
			} else {
				t.stopTransferringFiles(s.event == zzEvStopDeleteClient)
			}
		}
	case zzEvStopServer:
		s.V.stopTransferringFiles(false)
	case zzEvPauseClient:
		if t := s.f.transfer.Load(); t != nil {
			if zzPauseKind == 3 {
				verifAdvanceMs(500) // the line has been idle for half a second when the user pauses
			}
			t.pauseTransferringFiles()
			s.paused = t
			s.everPaused = true
		}
	}
}

func zzDamage(s *zzSess, p []byte) []byte {
	c := make([]byte, len(p))
	copy(c, p)
	if len(c) > 0 {
		pos := s.dmgPos
		if pos >= len(c) {
			pos = len(c) - 1
		}
		verifAssume(c[pos] != s.dmgByte)
		c[pos] = s.dmgByte
	}
	return c
}

func (w *zzSessToClient) Write(p []byte) (int, error) {
	s := w.s
	idx := s.nToC
	s.nToC++
	c := make([]byte, len(p))
	copy(c, p)
	switch s.event {
	case zzEvStopClient, zzEvStopDeleteClient, zzEvStopServer, zzEvPauseClient:
		if idx == s.at && !(s.event == zzEvPauseClient && zzPauseOwn) {
			s.fire()
		}
	case zzEvSilenceToClient:
		if idx >= s.at {
			s.fired = true
			return len(p), nil
		}
	case zzEvDamageToClient:
		if idx == s.at {
			s.fired = true
			c = zzDamage(s, p)
		}
	case zzEvDropToClient:
		if idx == s.at {
			s.fired = true
			return len(p), nil
		}
	case zzEvDupToClient:
		if idx == s.at {
			s.fired = true
			s.toClient <- append([]byte{}, c...)
		}
	}
	s.toClient <- c
	return len(p), nil
}

func (w *zzSessToServer) Write(p []byte) (int, error) {
	s := w.s
	idx := s.nToS
	s.nToS++
	s.wire = append(s.wire, p...)
	c := make([]byte, len(p))
	copy(c, p)
	if s.event == zzEvPauseClient && zzPauseOwn && idx == s.at {
		s.fire() // the user pauses while this message of the client is on its way out
	}
	switch s.event {
	case zzEvSilenceToServer:
		if idx >= s.at {
			s.fired = true
			return len(p), nil
		}
	case zzEvDamageToServer:
		if idx == s.at {
			s.fired = true
			c = zzDamage(s, p)
		}
	case zzEvDropToServer:
		if idx == s.at {
			s.fired = true
			return len(p), nil
		}
	case zzEvDupToServer:
		if idx == s.at {
			s.fired = true
			s.V.addReceivedData(append([]byte{}, c...), false)
		}
	}
	s.V.addReceivedData(c, false)
	return len(p), nil
}
func (w *zzSessToServer) Close() error { return nil }

type zzSessReader struct{ s *zzSess }

func (r *zzSessReader) Read(p []byte) (int, error) {
	b := <-r.s.toClient
	return copy(p, b), nil
}

type zzSessResult struct {
	old []byte // previous content of the destination name, if any
	serverDone  bool
	serverErr   error
	clientClear bool
	content     []byte
	root        string
	name        string
	hadOld      bool
	overwrite   bool
}

// zzRunSession runs one session with one event. upload=false: download (tsz), upload=true: upload (trz).
func zzRunSession(upload bool, event, maxAt int, timeout int) (*zzSess, *zzSessResult) {
	root := verifFSRoot()
	sroot := root[:len(root)-4] + "src"
	verifFSAddDir(sroot)
	n := verifNondetRange(1, verifBound("SIZE"))
	content := make([]byte, n)
	binary := verifBound("BINARY") != 0
	for i := range content {
		content[i] = verifNondetByte()
		if !binary {
			verifAssume(content[i] >= 'A') // identity base64 stub: keep the payload inside the base64 alphabet
			verifAssume(content[i] <= 'Z')
		}
	}
	verifFSAddFile(sroot+"/a", content)
	res := &zzSessResult{content: content, root: root, name: "a"}
	res.hadOld = verifNondetBool()
	if res.hadOld {
		old := []byte("old")
		if verifBoundOr("OLDPREFIX", 0) == 2 {
			// arbitrary previous content of 1..n+1 bytes: equal, prefix, longer, diverging at any offset
			k := verifNondetRange(1, n+1)
			old = make([]byte, k)
			for i := range old {
				old[i] = verifNondetByte()
			}
		} else if verifBoundOr("OLDPREFIX", 0) == 1 && n > 0 {
			// what an interrupted earlier transfer of the same file left behind: a proper or full prefix of the source
			k := verifNondetRange(1, n)
			old = append([]byte{}, content[:k]...)
		}
		verifFSAddFile(root+"/a", old)
		res.old = old
	}
	verifFSBegin()
	s := &zzSess{toClient: make(chan []byte, 400), term: &zzCap5{}, event: event, pauseTicks: zzPauseTicks}
	if event != zzEvNone {
		lo := 0
		if event == zzEvSilenceToServer || event == zzEvDamageToServer || event == zzEvDropToServer || event == zzEvDupToServer {
			lo = 1 // the handshake has begun: the client's ACT (its message 0) has reached the server
		}
		s.at = verifNondetRange(lo, maxAt)
		s.at2 = -1
		if event == zzEvPauseClient && verifBound("PAUSES") >= 2 {
			s.at2 = verifNondetRange(s.at, maxAt+1) // a second pause/continue cycle later in the same transfer (maxAt+1: none)
		}
	}
	if event == zzEvDamageToClient || event == zzEvDamageToServer {
		s.dmgPos = verifNondetRange(0, 12)
		s.dmgByte = verifNondetByte()
		verifAssume(s.dmgByte != '\n')
	}
	s.V = newTransfer(&zzSessToClient{s}, nil, false, nil)
	s.V.transferConfig.Timeout = timeout
	if b := verifBound("BUF"); b > 0 {
		// scaled-down buffer-size probing: the sending server starts with a b-byte chunk buffer instead of 10 KiB, so
		// that files of a few bytes span several stop-and-wait probing chunks
		s.V.bufferSize.Store(int64(b))
	}
	s.f = &TrzszFilter{clientOut: s.term, serverIn: &zzSessToServer{s}, serverOut: &zzSessReader{s}}
	s.f.options.TerminalColumns = 80
	go s.f.wrapOutput()
	res.overwrite = verifNondetBool()
	mode := byte('S')
	if upload {
		mode = 'R'
		s.f.oneTimeUploadFiles = []string{sroot + "/a"}
		args := &trzArgs{Path: root}
		args.Timeout = timeout
		args.Bufsize.Size = 1024
		args.Quiet = true
		args.Overwrite = res.overwrite
		args.Binary = binary
		args.Compress = compressType(verifBound("COMPRESS")) // 0 auto, 1 yes, 2 no
		if binary {
			args.Escape = verifNondetBool()
			s.escapeAll = args.Escape
		}
		go func() {
			res.serverErr = recvFiles(s.V, args, tmuxModeType(0), 0)
			if res.serverErr != nil {
				s.V.serverError(res.serverErr)
			}
			res.serverDone = true
		}()
	} else {
		s.f.defaultDownloadPath.Store(&root)
		args := &tszArgs{}
		args.Timeout = timeout
		args.Bufsize.Size = 1024
		args.Quiet = true
		args.Overwrite = res.overwrite
		args.Binary = binary
		args.Compress = compressType(verifBound("COMPRESS")) // 0 auto, 1 yes, 2 no
		files := []*sourceFile{{PathID: 0, AbsPath: sroot + "/a", RelPath: []string{"a"}, Size: int64(n)}}
		go func() {
			res.serverErr = sendFiles(s.V, files, args, tmuxModeType(0), 0)
			if res.serverErr != nil {
				s.V.serverError(res.serverErr)
			}
			res.serverDone = true
		}()
	}
	s.toClient <- []byte("\x1b7\x07::TRZSZ:TRANSFER:" + string([]byte{mode}) + ":1.1.5:0000000000100\r\n")
	verifQuiesce()
	resumed := false
	resumeIfPaused := func() {
		if event == zzEvPauseClient && s.paused != nil && !resumed {
			for i := 0; i < s.pauseTicks; i++ {
				verifAdvanceTime() // a pause at least as long as the timeout
				verifQuiesce()
			}
			if zzPauseKind == 3 {
				verifAdvanceMs(800) // shorter than the one-second timeout, but reads that were already waiting time out in it
				verifQuiesce()
			}
			s.paused.resumeTransferringFiles() // the user chose "continue"
			resumed = true
			verifQuiesce()
			if s.at2 > s.at {
				s.at, s.at2 = s.at2, -1
				s.fired, s.paused, resumed = false, nil, false
			}
		}
	}
	resumeIfPaused()
	chooseStop := func() {
		if s.pendingStop != 0 && s.paused != nil {
			verifAdvanceMs(300) // the user reads the question
			verifQuiesce()
			s.paused.stopTransferringFiles(s.pendingStop == 2)
			s.pendingStop = 0
			verifQuiesce()
		}
	}
	chooseStop()
	for i := 0; i < verifBound("TICKS") && !(res.serverDone && s.f.transfer.Load() == nil); i++ {
		if event == zzEvPauseClient && zzPauseKind == 3 {
			verifAdvanceMs(120) // time passes in small steps: sleepers wake, no fresh time-out runs out
		} else if verifBoundOr("FINE", 0) == 1 {
			verifAdvanceMs(200) // real deadlines: a 0.5 s clean-up wait ends before a time-out of seconds does
		} else {
			verifAdvanceTime()
		}
		verifQuiesce()
		resumeIfPaused()
		chooseStop()
	}
	res.clientClear = s.f.transfer.Load() == nil
	if res.hadOld && !res.overwrite {
		res.name = "a.0"
	}
	return s, res
}

func zzSessFileIntact(res *zzSessResult) bool {
	got := verifFSContent(res.root + "/" + res.name)
	if len(got) != len(res.content) {
		return false
	}
	for i := range got {
		if got[i] != res.content[i] {
			return false
		}
	}
	return true
}

// C10: the stop may arrive before any of the server's messages (client stop / stop-and-delete, server SIGINT)
func zzH_C10_session() {
	upload := verifNondetBool()
	event := verifNondetRange(zzEvStopClient, zzEvStopServer)
	zzStopAfterPause = verifBoundOr("PAUSEFIRST", 0) == 1 && event != zzEvStopServer
	s, res := zzRunSession(upload, event, verifBound("MSGS"), verifBoundOr("TIMEOUT", 1))
	verifAssert(res.serverDone, "the server side did not end after the stop")
	verifAssert(res.clientClear, "the client side did not end after the stop")
	destOnServer := upload
	if !s.fired {
		verifAssert(res.serverErr == nil, "transfer failed although no stop was delivered")
		verifAssert(zzSessFileIntact(res), "file not intact although no stop was delivered")
		verifReach("completed-before-stop")
		return
	}
	// each side reports that it was stopped (or success); the server's report is its return value
	if res.serverErr != nil {
		msg := res.serverErr.Error()
		te, isT := res.serverErr.(*trzszError)
		if isT {
			msg = te.message
		}
		verifAssert(len(msg) >= 7 && msg[:7] == "Stopped", "the server side reports something other than 'Stopped…' after a stop")
		if event == zzEvStopDeleteClient {
			verifAssert(len(msg) >= 19 && msg[:19] == "Stopped and deleted", "the server side was not told that the stop was a stop-and-delete")
		}
		verifReach("server-reports-stopped")
	}
	// never success for an incomplete file
	if res.serverErr == nil && verifFSKind(res.root+"/"+res.name) == 1 {
		verifAssert(zzSessFileIntact(res), "success reported although the file is incomplete")
	}
	// pre-existing content is never touched, whichever stop it was
	if res.hadOld && !res.overwrite {
		old := verifFSContent(res.root + "/a")
		verifAssert(string(old) == "old", "stop removed or modified a pre-existing file")
	}
	if event == zzEvStopDeleteClient && destOnServer && res.serverErr != nil {
		// the server, told "Stopped and deleted", removes what it created or had begun to replace
		if verifFSKind(res.root+"/"+res.name) == 1 {
			untouchedOld := res.hadOld && res.overwrite && string(verifFSContent(res.root+"/"+res.name)) == "old"
			verifAssert(untouchedOld || zzSessFileIntact(res), "the server left a partial file behind after the client's stop-and-delete")
		}
		verifReach("server-stop-delete")
	}
	if event == zzEvStopDeleteClient && !destOnServer {
		// the stopping client removes what it created, unless the file had already been completed and verified
		k := verifFSKind(res.root + "/" + res.name)
		if k == 1 {
			untouchedOld := res.hadOld && res.overwrite && string(verifFSContent(res.root+"/"+res.name)) == "old"
			verifAssert(untouchedOld || zzSessFileIntact(res), "stop-and-delete left a partial file behind")
		}
		verifReach("stop-delete")
	}
	zzSessTransparent(s)
	verifReach("stopped")
}


// C11: one direction of the connection goes silent from message k on: both ends return within the time-outs, with an
// error unless their part had already been completed and verified, and no worker of the transfer is left running
func zzH_C11_session() {
	upload := verifNondetBool()
	event := verifNondetRange(zzEvSilenceToClient, zzEvSilenceToServer)
	s, res := zzRunSession(upload, event, verifBound("MSGS"), 1)
	verifAssert(res.serverDone, "the server side did not return although the connection has been silent beyond the timeout")
	verifAssert(res.clientClear, "the client side did not return although the connection has been silent beyond the timeout")
	if !s.fired {
		verifAssert(res.serverErr == nil, "transfer failed although nothing was lost")
		verifAssert(zzSessFileIntact(res), "file not intact although nothing was lost")
		verifReach("completed")
		return
	}
	if res.serverErr == nil && verifFSKind(res.root+"/"+res.name) == 1 && !(res.hadOld && res.overwrite) {
		verifAssert(zzSessFileIntact(res), "success reported although the file is incomplete")
	}
	verifAssertNoLiveThreadsExcept("worker left running after both ends returned", "wrapOutput")
	zzSessTransparent(s)
	verifReach("silenced")
}

// C02: one byte of one message is altered: any side that nevertheless reports success does so only when the
// destination file is identical to the source
func zzH_C02_session() {
	upload := verifNondetBool()
	event := verifNondetRange(zzEvDamageToClient, zzEvDamageToServer)
	if verifBoundOr("DROP", 0) == 1 {
		event = verifNondetRange(zzEvDropToClient, zzEvDupToServer) // a whole message is lost, or delivered twice, instead
	}
	s, res := zzRunSession(upload, event, verifBound("MSGS"), 1)
	verifAssert(res.serverDone, "the server side did not return")
	verifAssert(res.clientClear, "the client side did not return")
	if !s.fired {
		verifAssert(res.serverErr == nil, "transfer failed although nothing was damaged")
		verifReach("undamaged")
	}
	if res.serverErr == nil {
		// the server reported success (for a download: it got the client's EXIT; for an upload: it saved the file)
		verifAssert(verifFSKind(res.root+"/"+res.name) == 1, "success reported but the file is missing")
		verifAssert(zzSessFileIntact(res), "a damaged transfer was reported as saved with different content")
		verifReach("success")
	} else {
		verifReach("error")
	}
	if !upload {
		// in a download the client is the side that saves: its "#EXIT:" line is its report of success ("Saved ...")
		msg := zzSessExitMessage(s)
		named := "\r\n- " + res.name // the report counts for this file only when it names it ("Saved 0 file/directory" names none)
		if len(msg) >= len(named) && msg[len(msg)-len(named):] == named {
			verifAssert(verifFSKind(res.root+"/"+res.name) == 1 && zzSessFileIntact(res),
				"the client reported the download as saved although the destination differs from the source")
			verifReach("client-saved")
		}
	}
	if res.hadOld && !res.overwrite {
		old := verifFSContent(res.root + "/a")
		verifAssert(string(old) == string(res.old), "a pre-existing file was modified")
	}
}


// C18: the user pauses just before the k-th server message and continues; a pause during which no time-out elapses
// must end in a complete, identical transfer; a longer pause either completes correctly or ends with an error —
// never a hang, never success for a wrong file
func zzH_C18_session() {
	upload := verifNondetBool()
	// three kinds of pause: (a) no time passes at all, (b) ten seconds pass with time-outs disabled (-t 0) — both are
	// "shorter than the timeout" —, (c) ten seconds pass with a one-second timeout
	// a fourth kind, run separately (bound KIND=3): the line idle for 0.5 s, a pause of 0.8 s with a one-second timeout —
	// shorter than the timeout, yet reads that were already waiting run out of time inside it (timers with real deadlines)
	kind := verifBoundOr("KIND", -1)
	if kind < 0 {
		kind = verifNondetRange(0, 2)
	}
	timeout := 0
	zzPauseTicks = 0
	zzPauseKind = kind
	if kind == 1 || kind == 2 {
		zzPauseTicks = 1
	}
	if kind >= 2 {
		timeout = 1
	}
	zzPauseOwn = verifBoundOr("OWN", 0) == 1
	s, res := zzRunSession(upload, zzEvPauseClient, verifBound("MSGS"), timeout)
	if !res.serverDone || !res.clientClear {
		verifAssertNoLiveThreadsExcept("a side hangs after a pause/resume", "wrapOutput")
	}
	verifAssert(res.serverDone, "the server side hangs after a pause/resume")
	verifAssert(res.clientClear, "the client side hangs after a pause/resume")
	if !s.everPaused || kind != 2 {
		verifAssert(res.serverErr == nil, "transfer failed although the pause was shorter than the timeout")
		verifAssert(zzSessFileIntact(res), "file differs after a short pause")
		verifReach("short-pause-ok")
		return
	}
	if res.serverErr == nil {
		verifAssert(zzSessFileIntact(res), "success reported for a wrong or truncated file after a long pause")
		verifReach("long-pause-ok")
	} else {
		verifReach("long-pause-error")
	}
}


// a plain session (no event): used for the binary-mode runs of C01 / C04 / C14
func zzH_C01_sessionPlain() {
	upload := verifNondetBool()
	s, res := zzRunSession(upload, zzEvNone, 0, 0)
	verifAssert(res.serverDone, "the server side did not finish over a fault-free connection")
	verifAssert(res.clientClear, "the client side did not finish over a fault-free connection")
	verifAssert(res.serverErr == nil, "transfer failed over a fault-free connection")
	verifAssert(zzSessFileIntact(res), "destination differs from the source")
	if res.hadOld && !res.overwrite {
		old := verifFSContent(res.root + "/a")
		verifAssert(string(old) == "old", "pre-existing file modified without -y")
	}
	if !upload {
		// the names shown to the user: a download ends with the client's "#EXIT:" line carrying the list it saved
		msg := zzSessExitMessage(s)
		want := "\r\n- " + res.name
		verifAssert(len(msg) >= len(want) && msg[len(msg)-len(want):] == want, "the name shown to the user is not the name that was written")
		verifReach("names-shown")
	}
	verifReach("session-ok")
}

// the decoded text of the last "#EXIT:" line the client wrote to the connection ("" if none)
func zzSessExitMessage(s *zzSess) string {
	w := s.wire
	for i := len(w) - 7; i >= 0; i-- {
		if string(w[i:i+6]) == "#EXIT:" {
			j := i + 6
			for j < len(w) && w[j] != '\n' && w[j] != '\r' {
				j++
			}
			b, err := decodeString(string(w[i+6 : j]))
			if err != nil {
				return ""
			}
			return string(b)
		}
	}
	return ""
}


// C04 at session level: in a binary upload no protected byte appears in ANYTHING the client writes to the connection
// between ACT and EXIT (protected set fixed from the property text), and the file still arrives intact
func zzH_C04_session() {
	s, res := zzRunSession(true, zzEvNone, 0, 0)
	verifAssert(res.serverDone, "the server side did not finish over a fault-free connection")
	verifAssert(res.serverErr == nil, "binary upload failed over a fault-free connection")
	verifAssert(zzSessFileIntact(res), "uploaded file differs from the source")
	prot := []byte{0x7e}
	if s.escapeAll {
		prot = []byte{0x7e, 0x02, 0x0d, 0x10, 0x11, 0x13, 0x18, 0x1b, 0x1d, 0x8d, 0x90, 0x91, 0x93, 0x9d}
	}
	for _, c := range s.wire {
		for _, p := range prot {
			verifAssert(c != p, "protected byte written to the connection during a binary upload")
		}
	}
	verifReach("binary-upload")
}


// C05 after a transfer that finished, failed or was cancelled: the wrapper is transparent again in both directions
func zzSessTransparent(s *zzSess) {
	if s.f.transfer.Load() != nil {
		return
	}
	before := len(s.term.got)
	s.toClient <- []byte("zq")
	verifQuiesce()
	got := s.term.got[before:]
	verifAssert(len(got) == 2 && got[0] == 'z' && got[1] == 'q', "remote output is not passed through unchanged after the transfer ended")
	var noDrag atomic.Bool
	n := len(s.wire)
	s.f.sendInput([]byte("k"), &noDrag)
	verifAssert(len(s.wire) == n+1 && s.wire[n] == 'k', "typed input does not reach the remote side after the transfer ended")
	verifReach("transparent-again")
}
