package trzsz

// C07 — without -y nothing that already exists at the destination is touched.
// Names are plain here (hostile names are C09's subject). The pre-existing state is either declared explicitly
// (name.N series with gaps, files where directories are needed) or left to the solver (verifFSSymbolicExists).

import "fmt"

type zzSink7 struct{ data []byte }

func (s *zzSink7) Write(p []byte) (int, error) {
	s.data = append(s.data, p...)
	return len(p), nil
}

// zzSuccName decodes the "#SUCC:<encoded>\n" reply the receiver wrote.
func zzSuccName(data []byte) (string, bool) {
	if len(data) < 8 || string(data[:6]) != "#SUCC:" || data[len(data)-1] != '\n' {
		return "", false
	}
	b, err := decodeString(string(data[6 : len(data)-1]))
	if err != nil {
		return "", false
	}
	return string(b), true
}

// the fresh-name search over a declared series name, name.0, ... name.(K-1) with arbitrary gaps and kinds
func zzH_C07_newName() {
	root := verifFSRoot()
	k := verifBound("K")
	names := []string{"f"}
	for i := 0; i < k; i++ {
		names = append(names, fmt.Sprintf("f.%d", i))
	}
	firstFree := -1
	for i, n := range names {
		kind := verifNondetRange(0, 2)
		if kind == 1 {
			verifFSAddFile(root+"/"+n, []byte{'o'})
		} else if kind == 2 {
			verifFSAddDir(root + "/" + n)
		} else if firstFree < 0 {
			firstFree = i
		}
	}
	verifAssume(firstFree >= 0)
	verifFSBegin()
	got, err := getNewName(root, "f")
	verifAssert(err == nil, "error although a fresh name exists")
	verifAssert(got == names[firstFree], "not the first free name of the series")
	verifAssert(verifFSMutations() == 0, "the search modified the destination")
	verifReach("fresh")
}

// all 1001 candidate names taken: the transfer fails, nothing is opened or reused
func zzH_C07_allTaken() {
	root := verifFSRoot()
	verifFSTakeAllNames(root, "f")
	verifFSBegin()
	sink := &zzSink7{}
	t := newTransfer(sink, nil, false, nil)
	t.transferConfig.Timeout = 0
	t.buffer.addBuffer([]byte("#NAME:" + encodeString("f") + "\n"))
	f, _, err := t.recvFileName(root, nil)
	verifAssert(err != nil, "a name was reused although none is free")
	verifAssert(f == nil, "a file was opened although none is free")
	verifAssert(verifFSMutations() == 0, "the destination was modified")
	verifAssert(len(sink.data) == 0, "SUCC sent although the name was refused")
	verifReach("refused")
}

// non-directory mode through the real NAME exchange; whatever pre-exists, nothing of it is touched
func zzH_C07_file() {
	root := verifFSRoot()
	verifFSSymbolicExists()
	verifFSBegin()
	sink := &zzSink7{}
	t := newTransfer(sink, nil, false, nil)
	t.transferConfig.Timeout = 0
	t.transferConfig.Protocol = verifNondetRange(1, 2)
	t.buffer.addBuffer([]byte("#NAME:" + encodeString("f") + "\n"))
	f, local, err := t.recvFileName(root, nil)
	if err != nil {
		verifAssert(!verifFSPreTouched(), "pre-existing entry modified by a refused receive")
		verifReach("refused")
		return
	}
	verifAssert(f != nil, "no file although success")
	f.Write([]byte{'n', 'e', 'w'})
	f.Close()
	verifAssert(!verifFSPreTouched(), "pre-existing entry modified")
	echoed, ok := zzSuccName(sink.data)
	verifAssert(ok, "malformed SUCC reply")
	verifAssert(echoed == local, "name echoed to the peer differs from the name returned")
	verifAssert(verifFSKind(root+"/"+local) == 1, "reported name is not the file written")
	c := verifFSContent(root + "/" + local)
	verifAssert(len(c) == 3, "reported name does not hold the data written")
	verifReach("created")
}

func zzSendName7(t *trzszTransfer, src *sourceFile) {
	js, err := src.marshalSourceFile()
	verifAssume(err == nil)
	t.buffer.addBuffer([]byte("#NAME:" + encodeString(js) + "\n"))
}

// directory mode: a directory and two entries below it (same path id), then a second top-level path whose base
// name may equal the first; everything of one path id goes consistently under one fresh name
func zzH_C07_dir() {
	root := verifFSRoot()
	verifFSSymbolicExists()
	verifFSBegin()
	sink := &zzSink7{}
	t := newTransfer(sink, nil, false, nil)
	t.transferConfig.Timeout = 0
	t.transferConfig.Directory = true
	v3 := verifNondetBool()
	recv := func(src *sourceFile) (fileWriter, string, error) {
		sink.data = nil
		zzSendName7(t, src)
		if v3 {
			t.transferConfig.Protocol = 3
			return t.recvFileNameV3(root, nil)
		}
		return t.recvFileName(root, nil)
	}
	_, l0, err := recv(&sourceFile{PathID: 0, RelPath: []string{"d"}, IsDir: true})
	if err != nil {
		verifAssert(!verifFSPreTouched(), "pre-existing entry modified by a refused receive")
		verifReach("refused")
		return
	}
	f1, l1, err := recv(&sourceFile{PathID: 0, RelPath: []string{"d", "x"}})
	verifAssert(err == nil, "entry below a directory this transfer created was refused")
	verifAssert(l1 == l0, "entries of one source path under different local names")
	if f1 != nil {
		f1.Write([]byte{'1'})
		f1.Close()
	}
	verifAssert(verifFSKind(root+"/"+l0+"/x") == 1, "entry not stored under the fresh top-level name")
	_, l2, err := recv(&sourceFile{PathID: 0, RelPath: []string{"d", "s"}, IsDir: true})
	verifAssert(err == nil, "sub-directory refused")
	verifAssert(l2 == l0, "entries of one source path under different local names")
	verifAssert(verifFSKind(root+"/"+l0+"/s") == 2, "sub-directory not created under the fresh top-level name")
	// a second source path, same base name or another one
	name2 := "d"
	if verifNondetBool() {
		name2 = "e"
	}
	f3, l3, err := recv(&sourceFile{PathID: 1, RelPath: []string{name2}})
	verifAssert(err == nil, "a second source path was refused although a fresh name exists for it")
	if err == nil {
		verifAssert(l3 != l0, "second source path stored over the first")
		if f3 != nil {
			f3.Write([]byte{'3'})
			f3.Close()
		}
		echoed, ok := zzSuccName(sink.data)
		if !v3 {
			verifAssert(ok, "malformed SUCC reply")
			verifAssert(echoed == l3, "name echoed to the peer differs from the name returned")
		}
		verifAssert(verifFSKind(root+"/"+l3) == 1, "reported name is not the file written")
	}
	verifAssert(!verifFSPreTouched(), "pre-existing entry modified")
	verifAssert(verifFSKind(root+"/"+l0+"/x") == 1, "first path's entry disturbed by the second path")
	verifReach("stored")
}
