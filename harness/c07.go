package trzsz

func verifNondetByte() byte
func verifNondetBool() bool
func verifNondetRange(lo, hi int) int
func verifAssume(bool)
func verifAssert(bool, string)
func verifReach(string)
func verifFSAddDir(path string)
func verifFSSymbolicExists()
func verifFSEvents() int
func verifFSEventPath(i int) string
func verifFSEventPre(i int) bool

type zzNop7 struct{}

func (zzNop7) Write(p []byte) (int, error) { return len(p), nil }

// non-directory mode, no -y: whatever already exists in /d, the file opened is a fresh name
func zzH_C07_create() {
	verifFSAddDir("/d")
	verifFSSymbolicExists()
	t := newTransfer(zzNop7{}, nil, false, nil)
	t.transferConfig.Overwrite = false
	f, local, err := t.createFile("/d", "f", true, nil)
	if err != nil {
		verifAssert(verifFSEvents() == 0, "something was opened although the call failed")
		verifReach("refused")
		return
	}
	_ = f
	verifAssert(verifFSEvents() == 1, "exactly one file opened")
	verifAssert(!verifFSEventPre(0), "an existing entry was opened for writing (truncated)")
	verifAssert(verifFSEventPath(0) == "/d/"+local, "reported name differs from the name used")
	verifReach("created")
}
