package trzsz

// C18 — pausing and resuming never corrupts a transfer or leaves it hanging.
// The pause-aware kernels run as executor threads; the harness flips the pause at solver-chosen moments, lets time
// pass (sleepers wake, armed timeouts fire) and plays the peer.

type zzSink18 struct{ data []byte }

func (s *zzSink18) Write(p []byte) (int, error) {
	s.data = append(s.data, p...)
	return len(p), nil
}

func zzCount18(hay []byte, needle string) int {
	n := 0
	for s := 0; s+len(needle) <= len(hay); s++ {
		if string(hay[s:s+len(needle)]) == needle {
			n++
		}
	}
	return n
}

// while paused the sender writes keep-alive lines only; the data frame goes out after the resume, exactly once;
// a stop during the pause wins
func zzH_C18_keepalive() {
	sink := &zzSink18{}
	t := newTransfer(sink, nil, false, nil)
	t.transferConfig.Protocol = verifNondetRange(2, 4)
	t.transferConfig.Timeout = 1
	pausedFirst := verifNondetBool()
	if pausedFirst {
		t.pauseTransferringFiles()
	}
	frame := []byte("#DATA:3\nabc")
	done := false
	var serr error
	go func() {
		_, serr = t.sendDataV2(frame, 3, true)
		done = true
	}()
	verifQuiesce()
	paused := pausedFirst && t.transferConfig.Protocol >= 3
	for tick := 0; tick < verifBound("TICKS"); tick++ {
		if paused {
			verifAssert(!done, "send completed although the transfer is paused")
			verifAssert(zzCount18(sink.data, "abc") == 0, "file data sent while paused")
		}
		verifAdvanceTime()
		verifQuiesce()
	}
	stopInPause := paused && verifNondetBool()
	if stopInPause {
		t.stopTransferringFiles(false)
	} else if pausedFirst {
		t.resumeTransferringFiles()
	}
	verifAdvanceTime()
	verifQuiesce()
	verifAssert(done, "sender still waiting after the pause ended")
	if stopInPause {
		verifAssert(serr != nil, "stop during a pause did not end the send")
		verifAssert(zzCount18(sink.data, "abc") == 0, "file data sent although the transfer was stopped while paused")
		verifReach("stopped-in-pause")
		return
	}
	verifAssert(serr == nil, "send failed")
	verifAssert(zzCount18(sink.data, "abc") == 1, "data frame not sent exactly once")
	if paused {
		verifAssert(zzCount18(sink.data, "#DATA:=\n") >= 1, "no keep-alive line during the pause")
		// nothing but keep-alives precede the frame
		k := zzCount18(sink.data, "#DATA:=\n")
		verifAssert(len(sink.data) == k*8+len(frame), "something other than keep-alives and the frame was sent")
		verifReach("paused-then-sent")
	} else {
		verifAssert(len(sink.data) == len(frame), "something other than the frame was sent")
		verifReach("sent")
	}
}

// the reader: keep-alive lines are never returned as payload; a read that timed out across a pause is retried,
// one that timed out without a pause fails; after a resume the parked read gets a fresh timeout
func zzH_C18_recv() {
	t := newTransfer(&zzSink18{}, nil, false, nil)
	t.transferConfig.Protocol = verifNondetRange(3, 4)
	t.transferConfig.Timeout = 1
	done := false
	var buf []byte
	var rerr error
	go func() {
		buf, _, _, rerr = t.recvCheckV2("SUCC")
		done = true
	}()
	verifQuiesce()
	timedOutPlain := false
	for step := 0; step < verifBound("STEPS") && !done; step++ {
		switch verifNondetRange(0, 5) {
		case 5: // the user pauses and continues at once: no time passes in the pause
			t.pauseTransferringFiles()
			verifQuiesce()
			t.resumeTransferringFiles()
		case 4: // a short time passes (a reader sitting out a pause wakes up; no time-out runs out)
			verifAdvanceMs(150)
		case 0: // the peer (paused itself) sends a keep-alive
			t.addReceivedData([]byte("#SUCC:=\n"), false)
		case 1: // the local user pauses, time passes, then resumes
			t.pauseTransferringFiles()
			verifAdvanceTime()
			verifQuiesce()
			t.resumeTransferringFiles()
		case 2: // time passes without a pause: the armed timeout fires
			timedOutPlain = true
			verifAdvanceTime()
		case 3:
		}
		verifQuiesce()
	}
	if !done && verifNondetBool() {
		// the peer stays silent for good and nobody pauses any more: the read must end with the time-out, not hang
		for i := 0; i < 3 && !done; i++ {
			verifAdvanceTime()
			verifQuiesce()
		}
		verifAssert(done, "reader still waiting although the peer has been silent beyond the timeout with no pause")
		verifAssert(rerr != nil, "read succeeded without input")
		verifReach("silent-timeout")
		return
	}
	if !done {
		t.addReceivedData([]byte("#SUCC:5\n"), false)
		verifQuiesce()
		if !done {
			verifAdvanceTime() // a reader that was waiting out the pause wakes up
			verifQuiesce()
		}
	}
	if done && rerr != nil {
		verifAssert(timedOutPlain, "read failed although no timeout passed outside a pause")
		verifReach("timeout")
		return
	}
	verifAssert(done, "reader still waiting although the line has arrived")
	verifAssert(rerr == nil, "read failed")
	verifAssert(len(buf) == 1 && buf[0] == '5', "keep-alive or garbage returned as payload")
	verifReach("line")
}
