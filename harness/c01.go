package trzsz

// C01 — end-to-end fidelity of a successful transfer (transfer kernels and the co-simulated data phase).

import (
	"context"
	"os"
)


type zzNop1 struct{}

func (zzNop1) Write(p []byte) (int, error) { return len(p), nil }

func zzH_C01_writer() {
	t := newTransfer(zzNop1{}, nil, false, nil)
	t.transferConfig.Binary = verifNondetBool()
	t.bufferSize.Store(int64(verifNondetRange(2, 4)))
	t.bufInitPhase.Store(false)
	c, cancel := context.WithCancelCause(context.Background())
	ctx := &pipelineContext{c, cancel, make(chan struct{}, 1)}
	ch := make(chan trzszData, 100)
	w := newSendDataWriter(t, ctx, ch)
	var all []byte
	for k := 0; k < verifBound("WRITES"); k++ {
		n := verifNondetRange(0, 5)
		p := make([]byte, n)
		for i := range p {
			p[i] = verifNondetByte()
		}
		m, err := w.Write(p)
		verifAssert(err == nil, "write error")
		verifAssert(m == n, "short write")
		all = append(all, p...)
		t.bufferSize.Store(int64(verifNondetRange(1, 8)))
	}
	verifAssert(w.Close() == nil, "close error")
	var got []byte
	finished := false
	for len(ch) > 0 {
		d := <-ch
		verifAssert(!finished, "data after the finish flag")
		if len(d.data) == 0 {
			finished = true
		}
		got = append(got, d.data...)
		// frame: "#DATA:" + (len + newline + data | data + newline)
		verifAssert(len(d.buffer) >= 7 && string(d.buffer[:6]) == "#DATA:", "frame header")
		if !t.transferConfig.Binary {
			verifAssert(len(d.buffer) == 6+len(d.data)+1, "base64 frame length")
			verifAssert(d.buffer[len(d.buffer)-1] == '\n', "frame newline")
		} else {
			verifAssert(len(d.data) < 10, "bound")
			verifAssert(len(d.buffer) == 6+1+1+len(d.data), "binary frame length")
			verifAssert(d.buffer[6] == byte('0'+len(d.data)), "binary frame length field")
			verifAssert(d.buffer[7] == '\n', "binary frame newline")
		}
	}
	verifAssert(finished, "finish flag missing")
	verifAssert(len(got) == len(all), "payload length")
	if len(got) == len(all) {
		for i := range all {
			verifAssert(got[i] == all[i], "payload content")
		}
	}
	verifReach("writer")
}


// ---- the whole data phase: sendFileDataV2 on one side, recvFileDataV2 on the other, connected back to back

type zzPipe1 struct{ peer *trzszTransfer }

func (p *zzPipe1) Write(b []byte) (int, error) {
	c := make([]byte, len(b))
	copy(c, b)
	p.peer.addReceivedData(c, false)
	return len(b), nil
}

type zzSrc1 struct {
	data  []byte
	pos   int
	chunk int
}

func (f *zzSrc1) Read(p []byte) (int, error) {
	n := f.chunk
	if n > len(p) {
		n = len(p)
	}
	if n > len(f.data)-f.pos {
		n = len(f.data) - f.pos
	}
	copy(p, f.data[f.pos:f.pos+n])
	f.pos += n
	return n, nil
}
func (f *zzSrc1) Close() error      { return nil }
func (f *zzSrc1) getFile() *os.File { return nil }
func (f *zzSrc1) getSize() int64    { return int64(len(f.data)) }

type zzDst1 struct {
	data   []byte
	closed bool
}

func (w *zzDst1) Write(p []byte) (int, error) { w.data = append(w.data, p...); return len(p), nil }
func (w *zzDst1) Close() error                { w.closed = true; return nil }
func (w *zzDst1) getFile() *os.File           { return nil }

// a file of SIZE symbolic bytes goes through the 14 real pipeline stages of both ends (read, md5, encode, frame,
// send, ack bookkeeping | receive, ack, decode, md5, save): both ends report success, the saved bytes are the source
// bytes, the digests agree. Buffer size, binary/base64, protocol 2..4 and the source's read granularity vary.
func zzH_C01_dataPhase() {
	S := newTransfer(nil, nil, false, nil)
	R := newTransfer(nil, nil, false, nil)
	S.writer, R.writer = &zzPipe1{R}, &zzPipe1{S}
	proto := verifNondetRange(2, 4)
	binary := verifNondetBool()
	maxBuf := int64(verifNondetRange(4, 8))
	for _, t := range []*trzszTransfer{S, R} {
		t.transferConfig.Protocol = proto
		t.transferConfig.Timeout = 0
		t.transferConfig.Binary = binary
		t.transferConfig.MaxBufSize = maxBuf
	}
	S.bufferSize.Store(int64(verifNondetRange(2, 4)))
	size := verifBound("SIZE")
	src := &zzSrc1{data: make([]byte, size), chunk: verifNondetRange(1, 3)}
	for i := range src.data {
		src.data[i] = verifNondetByte()
		if !binary {
			// the streaming base64 coder is an identity stub in the symbolic build: keep the payload inside the
			// base64 alphabet there (the native replay runs the real coder on the same bytes)
			verifAssume(src.data[i] >= 'A')
			verifAssume(src.data[i] <= 'Z')
		}
	}
	dst := &zzDst1{}
	var sd, rd []byte
	var serr, rerr error
	sdone, rdone := false, false
	go func() { sd, serr = S.sendFileDataV2(src, nil); sdone = true }()
	go func() { rd, rerr = R.recvFileDataV2(dst, int64(size), nil); rdone = true }()
	verifQuiesce()
	for i := 0; i < 3 && !(sdone && rdone); i++ {
		verifAdvanceTime() // the receiver re-sends its final ack on a 200 ms timer until everything is saved
		verifQuiesce()
	}
	verifAssert(sdone, "sender did not complete over a fault-free connection")
	verifAssert(rdone, "receiver did not complete over a fault-free connection")
	verifAssert(serr == nil, "sender failed over a fault-free connection")
	verifAssert(rerr == nil, "receiver failed over a fault-free connection")
	verifAssert(dst.closed, "destination not closed")
	verifAssert(len(dst.data) == size, "saved length differs from the source")
	for i := 0; i < size && i < len(dst.data); i++ {
		verifAssert(dst.data[i] == src.data[i], "saved content differs from the source")
	}
	verifAssert(len(sd) == 16 && len(rd) == 16, "digest length")
	for i := 0; i < 16 && i < len(sd) && i < len(rd); i++ {
		verifAssert(sd[i] == rd[i], "the two ends computed different digests for identical content")
	}
	verifReach("transferred")
}

// the compression decision is taken identically on both ends (or announced): for every size and configuration
func zzH_C01_compress() {
	S := newTransfer(nil, nil, false, nil)
	R := newTransfer(nil, nil, false, nil)
	S.writer, R.writer = &zzPipe1{R}, &zzPipe1{S}
	proto := verifNondetRange(1, 4)
	binary := verifNondetBool()
	ct := compressType(verifNondetRange(0, 2))
	for _, t := range []*trzszTransfer{S, R} {
		t.transferConfig.Protocol = proto
		t.transferConfig.Timeout = 0
		t.transferConfig.Binary = binary
		t.transferConfig.CompressType = ct
	}
	size := int64(verifNondetInt())
	verifAssume(size >= 0)
	fs, cs := S.isCompressFixed(size)
	fr, cr := R.isCompressFixed(size)
	verifAssert(fs == fr, "the two ends disagree on whether the compression is fixed")
	if fs {
		verifAssert(cs == cr, "the two ends disagree on the compression")
		verifReach("fixed")
		return
	}
	// not fixed: the sender announces its choice with a COMP line, the receiver follows it
	choice := verifNondetBool()
	S.sendLine("COMP", map[bool]string{true: "true", false: "false"}[choice])
	got, err := R.recvCompressFlag(size)
	verifAssert(err == nil, "announced compression flag not understood")
	verifAssert(got == choice, "receiver decodes with another compression than the sender announced")
	verifReach("announced")
}

// ---- negotiation: the client's ACT and the server's CFG through the real sendAction/recvAction/sendConfig/recvConfig
// of both ends: afterwards both ends hold the same settings, and these are what the two sides' capabilities allow

func zzH_C01_negotiate() {
	C := newTransfer(nil, nil, false, nil) // client
	V := newTransfer(nil, nil, false, nil) // server
	C.writer, V.writer = &zzPipe1{V}, &zzPipe1{C}
	C.transferConfig.Timeout, V.transferConfig.Timeout = 0, 0
	// the server version the trigger advertised decides the client's protocol
	sv := &trzszVersion{uint32(verifNondetRange(0, 2)), uint32(verifNondetRange(0, 2)), uint32(verifNondetRange(0, 5))}
	remoteWin := verifNondetBool()
	V.windowsProtocol = remoteWin // a server on Windows reads through the Windows console framing
	verifAssert(C.sendAction(true, sv, remoteWin) == nil, "sendAction failed")
	action, err := V.recvAction()
	verifAssert(err == nil, "recvAction failed")
	if err != nil {
		return
	}
	old := sv.compare(&trzszVersion{1, 1, 3}) <= 0 && sv.compare(&trzszVersion{1, 1, 0}) >= 0
	if old {
		verifAssert(action.Protocol == 2, "protocol offered to a 1.1.0-1.1.3 server is not 2")
	} else {
		verifAssert(action.Protocol == kProtocolVersion, "protocol offered is not the client's own")
	}
	verifAssert(action.Confirm, "confirm lost")
	verifAssert(action.SupportBinary == !remoteWin, "binary capability offered although the remote is Windows (or withheld otherwise)")
	verifAssert(!action.TunnelConnected, "tunnel announced without a connection")

	// the server's side of trz/tsz: honour the (possibly relay-narrowed) action
	args := &baseArgs{Quiet: verifNondetBool(), Overwrite: verifNondetBool(), Binary: false, Directory: verifNondetBool()}
	args.Bufsize.Size = int64(verifNondetRange(1024, 1<<30))
	args.Timeout = verifNondetRange(-1, 100)
	args.Compress = compressType(verifNondetRange(0, 2))
	tmuxMode := tmuxModeType(verifNondetRange(0, 2))
	pane := int32(verifNondetRange(0, 300))
	verifAssert(V.sendConfig(args, action, nil, tmuxMode, pane) == nil, "sendConfig failed")
	cfg, err := C.recvConfig()
	verifAssert(err == nil, "recvConfig failed")
	if err != nil {
		return
	}
	sc := &V.transferConfig
	verifAssert(cfg.Protocol == sc.Protocol, "the two ends hold different protocols")
	verifAssert(cfg.Protocol <= action.Protocol, "negotiated protocol above what the client offered")
	verifAssert(cfg.Protocol <= kProtocolVersion, "negotiated protocol above what the server understands")
	verifAssert(cfg.Protocol == action.Protocol || action.Protocol > kProtocolVersion, "protocol lowered although both ends understand it")
	verifAssert(cfg.Binary == sc.Binary, "the two ends disagree on binary mode")
	verifAssert(!cfg.Binary, "binary negotiated although the server did not ask for it and there is no tunnel")
	verifAssert(cfg.Directory == sc.Directory && cfg.Directory == args.Directory, "directory mode")
	verifAssert(cfg.Overwrite == sc.Overwrite && cfg.Overwrite == args.Overwrite, "overwrite")
	verifAssert(cfg.Quiet == sc.Quiet && cfg.Quiet == args.Quiet, "quiet")
	verifAssert(cfg.MaxBufSize == sc.MaxBufSize && cfg.MaxBufSize == args.Bufsize.Size, "max buffer size")
	verifAssert(cfg.Timeout == sc.Timeout && cfg.Timeout == args.Timeout, "timeout")
	verifAssert(cfg.CompressType == sc.CompressType && cfg.CompressType == args.Compress, "compress type")
	verifAssert(cfg.TmuxOutputJunk == (tmuxMode == tmuxNormalMode), "tmux junk flag")
	verifAssert(cfg.TmuxPaneColumns == pane, "tmux pane width")
	verifAssert(cfg.Newline == sc.Newline, "the two ends frame lines differently")
	verifReach("negotiated")
}

// ---- the whole file loop: sendFiles on one side, recvFiles on the other (NUM, NAME, SIZE, DATA, MD5 per file),
// over the stub file system / sandbox: whatever the protocol, mode and prior destination, after both ends report
// success the destination holds exactly the source files under the names reported

func zzH_C01_files() {
	root := verifFSRoot()
	sroot := root[:len(root)-4] + "src"
	verifFSAddDir(sroot)
	nfiles := verifNondetRange(1, verifBound("FILES"))
	names := []string{"a", "b"}
	var contents [][]byte
	var srcs []*sourceFile
	for i := 0; i < nfiles; i++ {
		n := verifNondetRange(0, verifBound("SIZE"))
		c := make([]byte, n)
		for j := range c {
			c[j] = verifNondetByte()
		}
		verifFSAddFile(sroot+"/"+names[i], c)
		contents = append(contents, c)
		srcs = append(srcs, &sourceFile{PathID: i, AbsPath: sroot + "/" + names[i], RelPath: []string{names[i]}, Size: int64(n)})
	}
	overwrite := verifNondetBool()
	hadOld := verifNondetBool()
	if hadOld {
		verifFSAddFile(root+"/a", []byte("old"))
	}
	verifFSBegin()
	S := newTransfer(nil, nil, false, nil)
	R := newTransfer(nil, nil, false, nil)
	S.writer, R.writer = &zzPipe1{R}, &zzPipe1{S}
	proto := verifNondetRange(1, 4)
	binary := verifNondetBool()
	directory := verifNondetBool()
	for _, t := range []*trzszTransfer{S, R} {
		t.transferConfig.Protocol = proto
		t.transferConfig.Timeout = 0
		t.transferConfig.Binary = binary
		t.transferConfig.Directory = directory
		t.transferConfig.Overwrite = overwrite
		t.transferConfig.MaxBufSize = 8
	}
	S.bufferSize.Store(4)
	if !binary {
		for _, c := range contents {
			for _, b := range c {
				verifAssume(b >= 'A') // identity base64 stub: keep the payload inside the base64 alphabet (symbolic build)
				verifAssume(b <= 'Z')
			}
		}
	}
	var remoteNames, localNames []string
	var serr, rerr error
	sdone, rdone := false, false
	go func() { remoteNames, serr = S.sendFiles(srcs, nil); sdone = true }()
	go func() { localNames, rerr = R.recvFiles(root, nil); rdone = true }()
	verifQuiesce()
	for i := 0; i < 4 && !(sdone && rdone); i++ {
		verifAdvanceTime()
		verifQuiesce()
	}
	verifAssert(sdone, "sender did not complete over a fault-free connection")
	verifAssert(rdone, "receiver did not complete over a fault-free connection")
	verifAssert(serr == nil, "sender failed over a fault-free connection")
	verifAssert(rerr == nil, "receiver failed over a fault-free connection")
	verifAssert(len(localNames) == nfiles, "number of names reported by the receiver")
	verifAssert(len(remoteNames) == nfiles, "number of names reported to the sender")
	for i := 0; i < nfiles && i < len(localNames) && i < len(remoteNames); i++ {
		verifAssert(localNames[i] == remoteNames[i], "the two ends report different names")
		want := names[i]
		if i == 0 && hadOld && !overwrite {
			want = "a.0"
		}
		verifAssert(localNames[i] == want, "reported name is not the name that had to be used")
		got := verifFSContent(root + "/" + localNames[i])
		verifAssert(len(got) == len(contents[i]), "destination length differs from the source")
		for j := 0; j < len(contents[i]) && j < len(got); j++ {
			verifAssert(got[j] == contents[i][j], "destination content differs from the source")
		}
	}
	if hadOld && !overwrite {
		old := verifFSContent(root + "/a")
		verifAssert(string(old) == "old", "pre-existing file modified without -y")
	}
	verifAssert(verifFSOpenHandles() == 0, "files left open after the transfer")
	verifReach("files-transferred")
}


// a chunk size that a cooperative sender can produce is never refused by the receiver's bound: the protocol-1 loop
// reads up to max(1024, bufsize) bytes and escaping can double them; the pipeline cuts already escaped data into
// chunks of at most max(10240, bufsize)
func zzH_C01_legitSizes() {
	t := newTransfer(nil, nil, false, nil)
	mb := int64(verifNondetInt())
	verifAssume(mb >= 1024) // -B accepts 1K..1G
	verifAssume(mb <= 1<<30)
	t.transferConfig.MaxBufSize = mb
	n := int64(verifNondetInt())
	verifAssume(n >= 0)
	p1 := mb // protocol 1: buffer grows from 1024 up to the negotiated maximum
	pl := mb // pipeline: buffer starts at 10240 and grows up to the negotiated maximum
	if pl < 10240 {
		pl = 10240
	}
	legit := n <= 2*p1 || n <= pl
	if legit {
		verifAssert(t.checkDataSize(n) == nil, "a chunk size a cooperative sender can produce was refused")
		verifReach("legit-accepted")
	}
}
