package trzsz

import "context"

func verifNondetByte() byte
func verifNondetBool() bool
func verifNondetRange(lo, hi int) int
func verifAssume(bool)
func verifAssert(bool, string)
func verifReach(string)

type zzNop1 struct{}

func (zzNop1) Write(p []byte) (int, error) { return len(p), nil }

func zzH_C01_writer() {
	t := newTransfer(zzNop1{}, nil, false, nil)
	t.transferConfig.Binary = verifNondetBool()
	t.bufferSize.Store(int64(verifNondetRange(2, 4)))
	t.bufInitPhase.Store(false)
	c, cancel := context.WithCancelCause(context.Background())
	ctx := &pipelineContext{c, cancel, make(chan struct{}, 1)}
	ch := make(chan trzszData, 100)
	w := newSendDataWriter(t, ctx, ch)
	var all []byte
	for k := 0; k < 3; k++ {
		n := verifNondetRange(0, 5)
		p := make([]byte, n)
		for i := range p {
			p[i] = verifNondetByte()
		}
		m, err := w.Write(p)
		verifAssert(err == nil, "write error")
		verifAssert(m == n, "short write")
		all = append(all, p...)
		t.bufferSize.Store(int64(verifNondetRange(1, 8)))
	}
	verifAssert(w.Close() == nil, "close error")
	var got []byte
	finished := false
	for len(ch) > 0 {
		d := <-ch
		verifAssert(!finished, "data after the finish flag")
		if len(d.data) == 0 {
			finished = true
		}
		got = append(got, d.data...)
		// frame: "#DATA:" + (len + newline + data | data + newline)
		verifAssert(len(d.buffer) >= 7 && string(d.buffer[:6]) == "#DATA:", "frame header")
		if !t.transferConfig.Binary {
			verifAssert(len(d.buffer) == 6+len(d.data)+1, "base64 frame length")
			verifAssert(d.buffer[len(d.buffer)-1] == '\n', "frame newline")
		} else {
			verifAssert(len(d.data) < 10, "bound")
			verifAssert(len(d.buffer) == 6+1+1+len(d.data), "binary frame length")
			verifAssert(d.buffer[6] == byte('0'+len(d.data)), "binary frame length field")
			verifAssert(d.buffer[7] == '\n', "binary frame newline")
		}
	}
	verifAssert(finished, "finish flag missing")
	verifAssert(len(got) == len(all), "payload length")
	if len(got) == len(all) {
		for i := range all {
			verifAssert(got[i] == all[i], "payload content")
		}
	}
	verifReach("writer")
}
