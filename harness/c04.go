package trzsz

// C04 — escape coding is reversible and keeps protected bytes off the wire.

import (
	"encoding/json"
	"fmt"
	"io"
)

// The protected sets are fixed here from the property text, not taken from the code.
var zzProtectedBasic = []byte{0x7e}
var zzProtectedAll = []byte{0x7e, 0x02, 0x0d, 0x10, 0x11, 0x13, 0x18, 0x1b, 0x1d, 0x8d, 0x90, 0x91, 0x93, 0x9d}

// zzP_escapeTables is a native probe: it runs the real server-side table construction and the real client-side
// parsing (getEscapeChars -> JSON -> escapeTable.UnmarshalJSON) on the current tree and reports the resulting pairs.
func zzP_escapeTables() {
	for k, all := range []bool{false, true} {
		js, err := json.Marshal(getEscapeChars(all))
		if err != nil {
			panic(err)
		}
		var t escapeTable
		if err := json.Unmarshal(js, &t); err != nil {
			panic(err)
		}
		n := 0
		for b := 0; b < 256; b++ {
			if c := t.escapeCodes[b]; c != nil {
				verifProbe(fmt.Sprintf("esc%d.%d.b", k, n), b)
				verifProbe(fmt.Sprintf("esc%d.%d.c", k, n), int(*c))
				n++
			}
		}
		verifProbe(fmt.Sprintf("esc%d.n", k), n)
		verifProbe(fmt.Sprintf("esc%d.total", k), t.totalCount)
	}
}

func zzMkTable(pairs [][2]byte) *escapeTable {
	t := &escapeTable{totalCount: len(pairs), escapeCodes: make([]*byte, 256), unescapeCodes: make([]*byte, 256)}
	for i := range pairs {
		a := new(byte)
		*a = pairs[i][0]
		b := new(byte)
		*b = pairs[i][1]
		t.escapeCodes[pairs[i][0]] = b
		t.unescapeCodes[pairs[i][1]] = a
	}
	return t
}

// zzBuiltinTable rebuilds the table the probe read from the real build (k = 0 basic, 1 escape-all).
func zzBuiltinPairs(k int) [][2]byte {
	n := verifBound(fmt.Sprintf("esc%d.n", k))
	pairs := make([][2]byte, n)
	for i := 0; i < n; i++ {
		pairs[i][0] = byte(verifBound(fmt.Sprintf("esc%d.%d.b", k, i)))
		pairs[i][1] = byte(verifBound(fmt.Sprintf("esc%d.%d.c", k, i)))
	}
	return pairs
}

func zzBuiltinTable(k int) *escapeTable {
	t := zzMkTable(zzBuiltinPairs(k))
	t.totalCount = verifBound(fmt.Sprintf("esc%d.total", k))
	return t
}

func zzSymData(n int) []byte {
	data := make([]byte, n)
	for i := range data {
		data[i] = verifNondetByte()
	}
	return data
}

func zzNoneOf(buf []byte, protected []byte, label string) {
	for _, c := range buf {
		for _, p := range protected {
			verifAssert(c != p, label)
		}
	}
}

func zzRoundtrip(t *escapeTable, protected []byte) {
	n := verifBound("N")
	data := zzSymData(n)
	esc := escapeData(data, t)
	zzNoneOf(esc, protected, "protected byte on the wire")
	out, rem, err := unescapeData(esc, t, nil)
	verifAssert(err == nil, "unescape error")
	verifAssert(len(rem) == 0, "bytes remaining after unescape")
	zzSameBytes04(out, data, "roundtrip")
	verifReach("roundtrip")
}

func zzSameBytes04(got, want []byte, label string) {
	verifAssert(len(got) == len(want), label+": length")
	for i := range want {
		verifAssert(got[i] == want[i], label+": content")
	}
}

func zzH_C04_builtin()    { zzRoundtrip(zzBuiltinTable(0), zzProtectedBasic) }
func zzH_C04_builtinAll() { zzRoundtrip(zzBuiltinTable(1), zzProtectedAll) }

// zzSymTable: an arbitrary well-formed announced table = an entry for the leader byte (code arbitrary) plus K arbitrary
// entries, injective in both directions, codes distinct from the protected bytes.
func zzSymTable() (*escapeTable, []byte) {
	p, prot := zzSymPairs()
	return zzMkTable(p), prot
}

func zzB(c bool) int {
	if c {
		return 1
	}
	return 0
}

func zzSymPairs() ([][2]byte, []byte) {
	k := verifBound("K")
	// the leader byte itself must be escaped, to a code of the server's choice (not necessarily 0xEE)
	c0 := verifNondetByte()
	pairs := [][2]byte{{0xee, c0}}
	var prot []byte
	for i := 0; i < k; i++ {
		b, c := verifNondetByte(), verifNondetByte()
		verifAssume(b != 0xee)
		for _, p := range pairs {
			verifAssume(c != p[1]) // codes pairwise distinct (a code may well be 0xEE if the leader uses another one)
		}
		for _, p := range pairs[1:] {
			verifAssume(b != p[0])
		}
		pairs = append(pairs, [2]byte{b, c})
		prot = append(prot, b)
	}
	for _, p := range pairs {
		for _, q := range pairs[1:] {
			verifAssume(p[1] != q[0]) // a code is not itself a protected byte
		}
	}
	return pairs, prot
}

func zzH_C04_symtable() {
	t, prot := zzSymTable()
	zzRoundtrip(t, prot)
}

type zzChunkReader struct {
	data []byte
	pos  int
}

func (r *zzChunkReader) Read(p []byte) (int, error) {
	if r.pos >= len(r.data) {
		return 0, io.EOF
	}
	hi := len(r.data) - r.pos
	if len(p) < hi {
		hi = len(p)
	}
	if hi == 0 {
		return 0, nil // a zero-length read returns nothing, as io.Reader allows
	}
	n := verifNondetRange(1, hi)
	copy(p, r.data[r.pos:r.pos+n])
	r.pos += n
	return n, nil
}

// streaming reader: every split of the escaped stream (incl. between leader and code) x every sequence of output sizes
func zzH_C04_stream() {
	var t *escapeTable
	switch verifBound("TABLE") {
	case 3:
		t = zzMkTable(nil) // "escape_chars": [] — a table that protects nothing
	case 4:
		t = nil // no table announced
	default:
		t = zzBuiltinTable(verifBound("TABLE"))
	}
	m := verifBound("M")
	data := zzSymData(m)
	esc := escapeData(data, t)
	rd := newEscapeReader(t, &zzChunkReader{data: esc})
	var out []byte
	eof := false
	for k := 0; k < 2*m+2; k++ {
		sz := verifNondetRange(1, verifBound("OUT"))
		p := make([]byte, sz)
		n, err := rd.Read(p)
		if err == io.EOF {
			verifAssert(n == 0, "n > 0 together with EOF")
			eof = true
			break
		}
		verifAssert(err == nil, "read error")
		verifAssert(n >= 1, "n < 1 without error")
		verifAssert(n <= sz, "n > len(p)")
		out = append(out, p[:n]...)
	}
	verifAssert(eof, "no EOF after the data")
	zzSameBytes04(out, data, "stream")
	verifReach("stream")
}

// a leader followed by a byte that is not a code of the table is rejected, never guessed (all 256 x table cases)
func zzH_C04_unknownCode() {
	var pairs [][2]byte
	if verifBound("TABLE") == 2 {
		pairs, _ = zzSymPairs()
	} else {
		pairs = zzBuiltinPairs(verifBound("TABLE"))
	}
	t := zzMkTable(pairs)
	pre, post := verifNondetByte(), verifNondetByte()
	verifAssume(pre != 0xee)
	c := verifNondetByte()
	defined := 0
	for _, p := range pairs {
		defined |= zzB(p[1] == c)
	}
	buf, _, err := unescapeData([]byte{pre, 0xee, c, post}, t, nil)
	if defined != 0 {
		verifAssert(err == nil, "defined pair rejected")
		verifReach("defined")
	} else {
		verifAssert(err != nil, "undefined escape pair accepted")
		verifAssert(buf == nil, "data returned with an error")
		verifReach("rejected")
	}
}

type zzSink struct{ data []byte }

func (s *zzSink) Write(p []byte) (int, error) {
	s.data = append(s.data, p...)
	return len(p), nil
}

// everything the sender writes for one binary DATA frame: header + escaped payload; then the receiver's view of it
func zzH_C04_wire() {
	k := verifBound("TABLE")
	prot := zzProtectedBasic
	if k == 1 {
		prot = zzProtectedAll
	}
	sink := &zzSink{}
	t := newTransfer(sink, nil, false, nil)
	t.transferConfig.Binary = true
	t.transferConfig.EscapeTable = zzBuiltinTable(k)
	data := zzSymData(verifBound("N"))
	verifAssert(t.sendData(data) == nil, "sendData error")
	zzNoneOf(sink.data, prot, "protected byte on the wire")
	// receiver side, the frame arriving in one or two reads
	r := newTransfer(&zzSink{}, nil, false, nil)
	r.transferConfig.Binary = true
	r.transferConfig.Timeout = 0
	r.transferConfig.EscapeTable = zzBuiltinTable(k)
	cut := verifNondetRange(1, len(sink.data))
	r.buffer.addBuffer(sink.data[:cut])
	if cut < len(sink.data) {
		r.buffer.addBuffer(sink.data[cut:])
	}
	verifExpectBlock(1)
	got, err := r.recvData()
	verifExpectBlock(0)
	verifAssert(err == nil, "recvData error")
	zzSameBytes04(got, data, "wire")
	verifReach("wire")
}

type zzCloseSink struct{ zzSink }

func (s *zzCloseSink) Close() error { return nil }

// the streaming writer in front of the framer: what it hands down never contains a protected byte and decodes back
func zzH_C04_writer() {
	k := verifBound("TABLE")
	prot := zzProtectedBasic
	if k == 1 {
		prot = zzProtectedAll
	}
	t := zzBuiltinTable(k)
	sink := &zzCloseSink{}
	w := newEscapeWriter(t, sink)
	data := zzSymData(verifBound("N"))
	cut := verifNondetRange(0, len(data))
	n1, err1 := w.Write(data[:cut])
	n2, err2 := w.Write(data[cut:])
	verifAssert(err1 == nil, "write error")
	verifAssert(err2 == nil, "write error")
	verifAssert(n1 == cut, "short count")
	verifAssert(n2 == len(data)-cut, "short count")
	zzNoneOf(sink.data, prot, "protected byte on the wire")
	out, rem, err := unescapeData(sink.data, t, nil)
	verifAssert(err == nil, "unescape error")
	verifAssert(len(rem) == 0, "bytes remaining after unescape")
	zzSameBytes04(out, data, "writer")
	verifReach("writer")
}
