package trzsz

// Harness API, native replay build: nondeterministic inputs come from the replay vector the solver produced
// (file named by $VERIF_REPLAY); assertions report on stdout. Used through `go test -c -overlay`; never part of /repo.

import (
	"encoding/hex"
	"encoding/json"
	"fmt"
	"os"
	"path/filepath"
	"runtime"
	"strings"
	"sync"
	"sync/atomic"
	"time"

	"github.com/mattn/go-runewidth"
)

type verifInput struct {
	Name string `json:"name"`
	Bits int    `json:"bits"`
	Val  uint64 `json:"val"`
}

var verifState struct {
	mu     sync.Mutex
	inputs []verifInput
	pos    int
	bounds map[string]int64
	blk    int32
	gen    int32
}

func verifExit(line string, code int) {
	fmt.Println(line)
	os.Stdout.Sync()
	os.Exit(code)
}

func verifReplayMain(entries map[string]func()) {
	var rf struct {
		Entry  string           `json:"entry"`
		Bounds map[string]int64 `json:"bounds"`
		Inputs []verifInput     `json:"inputs"`
		FSPre  []verifFSPreEnt  `json:"fs_pre"`
	}
	b, err := os.ReadFile(os.Getenv("VERIF_REPLAY"))
	if err != nil {
		verifExit("VERIF-ERROR: "+err.Error(), 3)
	}
	if err := json.Unmarshal(b, &rf); err != nil {
		verifExit("VERIF-ERROR: "+err.Error(), 3)
	}
	f, ok := entries[rf.Entry]
	if !ok {
		verifExit("VERIF-ERROR: no entry "+rf.Entry, 3)
	}
	verifState.inputs, verifState.bounds = rf.Inputs, rf.Bounds
	verifFS.pre = rf.FSPre
	f()
	if atomic.LoadInt32(&verifState.blk) == 2 {
		verifExit("VERIF-VIOLATION: noblock", 1)
	}
	verifExit("VERIF-DONE", 0)
}

func verifNext() uint64 {
	verifState.mu.Lock()
	defer verifState.mu.Unlock()
	if verifState.pos >= len(verifState.inputs) {
		verifExit("VERIF-INPUT-EXHAUSTED", 3)
	}
	v := verifState.inputs[verifState.pos].Val
	verifState.pos++
	return v
}

func verifNondetByte() byte { return byte(verifNext()) }
func verifNondetInt() int   { return int(int64(verifNext())) }
func verifNondetBool() bool { return verifNext() != 0 }
func verifNondetRange(lo, hi int) int {
	v := int(int64(verifNext()))
	if v < lo || v > hi {
		verifExit("VERIF-ASSUME-FAILED", 3)
	}
	return v
}

func verifBound(name string) int {
	v, ok := verifState.bounds[name]
	if !ok {
		verifExit("VERIF-ERROR: no bound "+name, 3)
	}
	return int(v)
}

func verifBoundOr(name string, def int) int {
	if v, ok := verifState.bounds[name]; ok {
		return int(v)
	}
	return def
}

func verifAssume(c bool) {
	if !c {
		verifExit("VERIF-ASSUME-FAILED", 3)
	}
}

func verifAssert(c bool, label string) {
	if !c {
		verifExit("VERIF-VIOLATION: "+label, 1)
	}
}

func verifProbe(key string, val int) { fmt.Printf("VERIF-PROBE: %s=%d\n", key, val) }

func verifReach(label string) {
	fmt.Println("VERIF-REACH: " + label)
}

// verifExpectBlock: 1 = the following call must not wait (its input is complete), 2 = it must wait forever, 0 = end of the region.
func verifExpectBlock(mode int) {
	prev := atomic.SwapInt32(&verifState.blk, int32(mode))
	gen := atomic.AddInt32(&verifState.gen, 1)
	if mode == 0 {
		if prev == 2 {
			verifExit("VERIF-VIOLATION: noblock", 1)
		}
		return
	}
	go func() {
		if mode == 2 {
			time.Sleep(400 * time.Millisecond)
			if atomic.LoadInt32(&verifState.gen) == gen {
				verifExit("VERIF-BLOCKED-EXPECTED", 0)
			}
		} else {
			time.Sleep(3 * time.Second)
			if atomic.LoadInt32(&verifState.gen) == gen {
				verifExit("VERIF-VIOLATION: blocked", 1)
			}
		}
	}()
}

func verifNotNative(what string) { verifExit("VERIF-ERROR: "+what+" has no native counterpart", 3) }

func verifBlockForever()                   { select {} }

// verifQuiesce waits until the other goroutines have stopped making progress: two consecutive snapshots of all
// goroutine stacks (50 ms apart) are identical, or 5 s have passed. Robust against a loaded machine.
func verifQuiesce() {
	time.Sleep(100 * time.Millisecond)
	snap := func() string {
		buf := make([]byte, 1<<20)
		buf = buf[:runtime.Stack(buf, true)]
		var keep []string
		for _, g := range strings.Split(string(buf), "\n\n") {
			if strings.Contains(g, "verifQuiesce") || strings.Contains(g, "runtime.gopark") && strings.Contains(g, "bgsweep") {
				continue
			}
			// drop the "N minutes" wait annotations which change while nothing happens
			if i := strings.Index(g, "\n"); i > 0 {
				head := g[:i]
				if j := strings.Index(head, ","); j > 0 {
					head = head[:j] + "]:"
				}
				g = head + g[i:]
			}
			keep = append(keep, g)
		}
		return strings.Join(keep, "\n\n")
	}
	prev := snap()
	stable := 0
	for i := 0; i < 100 && stable < 3; i++ {
		time.Sleep(50 * time.Millisecond)
		cur := snap()
		if cur == prev {
			stable++
		} else {
			stable = 0
		}
		prev = cur
	}
}

// verifLiveWorkers counts goroutines that are executing code of the package under test, other than the harness's own.
func verifLiveWorkers() (n int, where string) {
	// a worker that is merely slow to exit is not a leak: poll for up to 4 s
	for i := 0; i < 20; i++ {
		n, where = verifLiveWorkersOnce()
		if n == 0 {
			return
		}
		time.Sleep(200 * time.Millisecond)
	}
	return
}

func verifLiveWorkersOnce() (int, string) {
	time.Sleep(100 * time.Millisecond)
	buf := make([]byte, 1<<20)
	buf = buf[:runtime.Stack(buf, true)]
	n := 0
	var where []string
	for _, g := range strings.Split(string(buf), "\n\n") {
		if !strings.Contains(g, "trzsz-go/trzsz.") {
			continue
		}
		if verifLiveAllowed != "" && strings.Contains(g, verifLiveAllowed) {
			continue
		}
		if strings.Contains(g, "verifLiveWorkers") || strings.Contains(g, "verifQuiesce") || strings.Contains(g, "testing.tRunner") || strings.Contains(g, "trzsz.verif") {
			continue
		}
		own := true
		for _, ln := range strings.Split(g, "\n") {
			if strings.Contains(ln, "trzsz-go/trzsz.") && !strings.Contains(ln, "trzsz.zz") {
				own = false // a frame of the real code, not only of harness helpers
				where = append(where, strings.TrimSpace(ln))
				break
			}
		}
		if !own {
			n++
		}
	}
	return n, strings.Join(where, "; ")
}

func verifLiveThreads() int { n, _ := verifLiveWorkers(); return n }

func verifAssertNoLiveThreadsExcept(label string, allowed string) {
	verifLiveAllowed = allowed
	verifAssertNoLiveThreads(label)
}

var verifLiveAllowed string

func verifAssertNoLiveThreads(label string) {
	if n, where := verifLiveWorkers(); n > 0 {
		fmt.Println("VERIF-LIVE: " + where)
		verifExit("VERIF-VIOLATION: "+label, 1)
	}
}
func verifAdvanceMs(ms int) { time.Sleep(time.Duration(ms) * time.Millisecond) }

func verifAdvanceTime()                    { time.Sleep(1200 * time.Millisecond) }
func verifSymbolicClock()                  {}
func verifHelperExit(int)                  { verifNotNative("verifHelper") }
func verifHelperOutput([]byte)             { verifNotNative("verifHelper") }
func verifHelperCloseOutput()              { verifNotNative("verifHelper") }
func verifHelperState() int                { verifNotNative("verifHelper"); return 0 }
func verifAbstractName(int) string         { verifNotNative("verifAbstractName"); return "" }
func verifOpaqueASCII(int, int) string     { verifNotNative("verifOpaqueASCII"); return "" }

// verifDisplayWidth: display width of a rendered string, zero-width control sequences removed
func verifDisplayWidth(s string) int {
	var b []byte
	esc := 0
	for i := 0; i < len(s); i++ {
		c := s[i]
		switch {
		case esc == 1:
			if c == '[' {
				esc = 2
			} else {
				esc = 0
			}
		case esc == 2:
			if (c >= 'a' && c <= 'z') || (c >= 'A' && c <= 'Z') {
				esc = 0
			}
		case c == 0x1b:
			esc = 1
		default:
			b = append(b, c)
		}
	}
	return runewidth.StringWidth(string(b))
}

// ---- sandbox file system

type verifFSPreEnt struct {
	Path string `json:"path"`
	Dir  bool   `json:"dir"`
}

type verifFSEnt struct {
	dir     bool
	content string
}

var verifFS struct {
	work, root string
	pre        []verifFSPreEnt
	snap       map[string]verifFSEnt
}

func verifFSRoot() string {
	if verifFS.root == "" {
		verifFS.work = os.Getenv("VERIF_WORK")
		if verifFS.work == "" {
			verifExit("VERIF-ERROR: no VERIF_WORK", 3)
		}
		verifFS.root = verifFS.work + "/a/b/c/dest"
		if err := os.MkdirAll(verifFS.root, 0o755); err != nil {
			verifExit("VERIF-ERROR: "+err.Error(), 3)
		}
	}
	return verifFS.root
}

// verifFSMap maps a path of the symbolic world (/w/...) into the sandbox.
func verifFSMap(sym string) string {
	verifFSRoot()
	if sym == "/w" {
		return verifFS.work
	}
	if strings.HasPrefix(sym, "/w/") {
		return verifFS.work + sym[2:]
	}
	verifExit("VERIF-ERROR: path outside the sandbox: "+sym, 3)
	return ""
}

func verifFSAddFile(path string, content []byte) {
	if err := os.WriteFile(path, content, 0o644); err != nil {
		verifExit("VERIF-ERROR: "+err.Error(), 3)
	}
}

func verifFSAddDir(path string) {
	if err := os.MkdirAll(path, 0o755); err != nil {
		verifExit("VERIF-ERROR: "+err.Error(), 3)
	}
}

func verifFSTakeAllNames(dir, name string) {
	verifFSAddFile(filepath.Join(dir, name), nil)
	for i := 0; i < 1000; i++ {
		verifFSAddFile(filepath.Join(dir, fmt.Sprintf("%s.%d", name, i)), nil)
	}
}

func verifFSSymbolicExists() {
	for _, e := range verifFS.pre {
		b, err := hex.DecodeString(e.Path)
		if err != nil {
			verifExit("VERIF-ERROR: "+err.Error(), 3)
		}
		p := verifFSMap(string(b))
		if e.Dir {
			err = os.MkdirAll(p, 0o755)
		} else {
			err = os.WriteFile(p, nil, 0o644)
		}
		if err != nil {
			verifExit("VERIF-ASSUME-FAILED", 3) // the solver's pre-state is not realisable on a real file system
		}
	}
}

func verifFSWalk() map[string]verifFSEnt {
	m := map[string]verifFSEnt{}
	filepath.Walk(verifFS.work, func(p string, info os.FileInfo, err error) error {
		if err != nil {
			return nil
		}
		e := verifFSEnt{dir: info.IsDir()}
		if !e.dir {
			b, _ := os.ReadFile(p)
			e.content = string(b)
		}
		m[p] = e
		return nil
	})
	return m
}

func verifFSBegin() {
	verifFSRoot()
	verifFS.snap = verifFSWalk()
}

func verifFSInside(p string) bool {
	return p == verifFS.root || strings.HasPrefix(p, verifFS.root+"/")
}

func verifFSDiff(filter func(p string, old, isNew bool) bool) int {
	if verifFS.snap == nil {
		verifExit("VERIF-ERROR: verifFSBegin not called", 3)
	}
	now := verifFSWalk()
	n := 0
	for p, e := range now {
		o, ok := verifFS.snap[p]
		if (!ok || o != e) && filter(p, ok, !ok) {
			n++
		}
	}
	for p := range verifFS.snap {
		if _, ok := now[p]; !ok && filter(p, true, false) {
			n++
		}
	}
	return n
}

func verifFSEscaped() bool {
	return verifFSDiff(func(p string, old, isNew bool) bool { return !verifFSInside(p) }) > 0
}

func verifFSPreTouched() bool {
	return verifFSDiff(func(p string, old, isNew bool) bool { return old }) > 0
}

func verifFSMutations() int {
	return verifFSDiff(func(p string, old, isNew bool) bool { return true })
}

func verifFSKind(path string) int {
	st, err := os.Lstat(path)
	if err != nil {
		return 0
	}
	if st.IsDir() {
		return 2
	}
	return 1
}

func verifFSContent(path string) []byte {
	b, _ := os.ReadFile(path)
	return b
}

func verifFSOpenHandles() int {
	ents, _ := os.ReadDir("/proc/self/fd")
	n := 0
	for _, e := range ents {
		if t, err := os.Readlink("/proc/self/fd/" + e.Name()); err == nil && strings.HasPrefix(t, verifFS.work+"/") {
			n++
		}
	}
	return n
}
