package trzsz

// Harness API, native replay build: nondeterministic inputs come from the replay vector the solver produced
// (file named by $VERIF_REPLAY); assertions report on stdout. Used through `go test -c -overlay`; never part of /repo.

import (
	"encoding/json"
	"fmt"
	"os"
	"sync"
	"sync/atomic"
	"time"
)

type verifInput struct {
	Name string `json:"name"`
	Bits int    `json:"bits"`
	Val  uint64 `json:"val"`
}

var verifState struct {
	mu     sync.Mutex
	inputs []verifInput
	pos    int
	bounds map[string]int64
	blk    int32
	gen    int32
}

func verifExit(line string, code int) {
	fmt.Println(line)
	os.Stdout.Sync()
	os.Exit(code)
}

func verifReplayMain(entries map[string]func()) {
	var rf struct {
		Entry  string           `json:"entry"`
		Bounds map[string]int64 `json:"bounds"`
		Inputs []verifInput     `json:"inputs"`
	}
	b, err := os.ReadFile(os.Getenv("VERIF_REPLAY"))
	if err != nil {
		verifExit("VERIF-ERROR: "+err.Error(), 3)
	}
	if err := json.Unmarshal(b, &rf); err != nil {
		verifExit("VERIF-ERROR: "+err.Error(), 3)
	}
	f, ok := entries[rf.Entry]
	if !ok {
		verifExit("VERIF-ERROR: no entry "+rf.Entry, 3)
	}
	verifState.inputs, verifState.bounds = rf.Inputs, rf.Bounds
	f()
	if atomic.LoadInt32(&verifState.blk) == 2 {
		verifExit("VERIF-VIOLATION: noblock", 1)
	}
	verifExit("VERIF-DONE", 0)
}

func verifNext() uint64 {
	verifState.mu.Lock()
	defer verifState.mu.Unlock()
	if verifState.pos >= len(verifState.inputs) {
		verifExit("VERIF-INPUT-EXHAUSTED", 3)
	}
	v := verifState.inputs[verifState.pos].Val
	verifState.pos++
	return v
}

func verifNondetByte() byte { return byte(verifNext()) }
func verifNondetInt() int   { return int(int64(verifNext())) }
func verifNondetBool() bool { return verifNext() != 0 }
func verifNondetRange(lo, hi int) int {
	v := int(int64(verifNext()))
	if v < lo || v > hi {
		verifExit("VERIF-ASSUME-FAILED", 3)
	}
	return v
}

func verifBound(name string) int {
	v, ok := verifState.bounds[name]
	if !ok {
		verifExit("VERIF-ERROR: no bound "+name, 3)
	}
	return int(v)
}

func verifAssume(c bool) {
	if !c {
		verifExit("VERIF-ASSUME-FAILED", 3)
	}
}

func verifAssert(c bool, label string) {
	if !c {
		verifExit("VERIF-VIOLATION: "+label, 1)
	}
}

func verifProbe(key string, val int) { fmt.Printf("VERIF-PROBE: %s=%d\n", key, val) }

func verifReach(label string) {
	fmt.Println("VERIF-REACH: " + label)
}

// verifExpectBlock: 1 = the following call must not wait (its input is complete), 2 = it must wait forever, 0 = end of the region.
func verifExpectBlock(mode int) {
	prev := atomic.SwapInt32(&verifState.blk, int32(mode))
	gen := atomic.AddInt32(&verifState.gen, 1)
	if mode == 0 {
		if prev == 2 {
			verifExit("VERIF-VIOLATION: noblock", 1)
		}
		return
	}
	go func() {
		if mode == 2 {
			time.Sleep(400 * time.Millisecond)
			if atomic.LoadInt32(&verifState.gen) == gen {
				verifExit("VERIF-BLOCKED-EXPECTED", 0)
			}
		} else {
			time.Sleep(3 * time.Second)
			if atomic.LoadInt32(&verifState.gen) == gen {
				verifExit("VERIF-VIOLATION: blocked", 1)
			}
		}
	}()
}

func verifNotNative(what string) { verifExit("VERIF-ERROR: "+what+" has no native counterpart", 3) }

func verifBlockForever()                   { select {} }
func verifQuiesce()                        { time.Sleep(300 * time.Millisecond) }
func verifLiveThreads() int                { verifNotNative("verifLiveThreads"); return 0 }
func verifAdvanceTime()                    { time.Sleep(50 * time.Millisecond) }
func verifFSAddFile(string, []byte)        { verifNotNative("verifFS") }
func verifFSAddDir(string)                 { verifNotNative("verifFS") }
func verifFSSymbolicExists()               { verifNotNative("verifFS") }
func verifFSEvents() int                   { verifNotNative("verifFS"); return 0 }
func verifFSEventPath(int) string          { verifNotNative("verifFS"); return "" }
func verifFSEventPre(int) bool             { verifNotNative("verifFS"); return false }
func verifFSKind(string) int               { verifNotNative("verifFS"); return 0 }
func verifFSContent(string) []byte         { verifNotNative("verifFS"); return nil }
func verifFSOpenHandles() int              { verifNotNative("verifFS"); return 0 }
func verifAbstractName(int) string         { verifNotNative("verifAbstractName"); return "" }
func verifOpaqueASCII(int, int) string     { verifNotNative("verifOpaqueASCII"); return "" }
func verifDisplayWidth(string) int         { verifNotNative("verifDisplayWidth"); return 0 }
