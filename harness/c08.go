package trzsz

// C08 — with -y the destination ends up identical to the source whatever was there.
// Sender and receiver of the protocol 3/4 name + prefix-hash exchange run as two executor threads connected back to
// back; source content, previous destination content (absent, empty, shorter, equal, longer, diverging anywhere) are
// symbolic; the data phase that follows is played by the harness with what the sender announced.

import "io"

type zzPipe8 struct{ peer *trzszTransfer }

func (p *zzPipe8) Write(b []byte) (int, error) {
	c := make([]byte, len(b))
	copy(c, b)
	p.peer.addReceivedData(c, false)
	return len(b), nil
}

func zzSym8(n int) []byte {
	b := make([]byte, n)
	for i := range b {
		b[i] = verifNondetByte()
	}
	return b
}

func zzH_C08_cosim() {
	root := verifFSRoot()
	sroot := root[:len(root)-4] + "src"
	verifFSAddDir(sroot)
	src := zzSym8(verifNondetRange(0, verifBound("LEN")))
	verifFSAddFile(sroot+"/f", src)
	var dst []byte
	hadDst := verifNondetBool()
	if hadDst {
		dst = zzSym8(verifNondetRange(0, verifBound("LEN")))
		verifFSAddFile(root+"/f", dst)
	}
	verifFSAddFile(root+"/other", []byte("keep"))
	verifFSBegin()

	S := newTransfer(nil, nil, false, nil)
	R := newTransfer(nil, nil, false, nil)
	S.writer, R.writer = &zzPipe8{R}, &zzPipe8{S}
	proto := verifNondetRange(3, 4)
	for _, t := range []*trzszTransfer{S, R} {
		t.transferConfig.Protocol = proto
		t.transferConfig.Timeout = 0
		t.transferConfig.Overwrite = true
	}
	var file fileReader
	var w fileWriter
	var serr, rerr error
	sdone, rdone := false, false
	go func() {
		file, _, serr = S.sendFileNameV3(&sourceFile{PathID: 0, AbsPath: sroot + "/f", RelPath: []string{"f"}, Size: int64(len(src))}, nil)
		sdone = true
	}()
	go func() {
		w, _, rerr = R.recvFileNameV3(root, nil)
		rdone = true
	}()
	verifQuiesce()
	verifAssert(sdone, "sender did not finish the resume exchange")
	verifAssert(rdone, "receiver did not finish the resume exchange")
	verifAssert(serr == nil, "sender failed")
	verifAssert(rerr == nil, "receiver failed")
	verifAssert(file != nil, "no source reader")
	verifAssert(w != nil, "no destination writer")

	// what the sender will still send, and what it skips
	remaining := int(file.getSize())
	verifAssert(remaining >= 0, "negative remaining size")
	verifAssert(remaining <= len(src), "remaining size larger than the file")
	skipped := len(src) - remaining
	verifAssert(skipped <= len(dst), "skipped more than the destination held")
	for i := 0; i < skipped; i++ {
		verifAssert(dst[i] == src[i], "skipped bytes that were not proven equal")
	}
	// between the resume exchange and the data phase the sender may sample the file to decide about compression (files
	// of at least three sample blocks, compression "auto"); the sampling must leave the reader where the exchange put it
	if verifBound("PROBE") == 1 && remaining >= 3*compressedBlockSize {
		_, perr := isCompressionProfitable(file)
		verifAssert(perr == nil, "compressibility probe failed")
		verifReach("probed")
	}
	// the data phase: the rest of the source goes through the receiver's handle
	rest := make([]byte, remaining)
	n, _ := io.ReadFull(file, rest)
	verifAssert(n == remaining, "source reader not positioned at the agreed offset")
	for i := 0; i < n; i++ {
		verifAssert(rest[i] == src[skipped+i], "source reader not positioned at the agreed offset")
	}
	w.Write(rest)
	w.Close()
	file.Close()

	got := verifFSContent(root + "/f")
	verifAssert(len(got) == len(src), "destination length differs from the source")
	for i := range src {
		verifAssert(got[i] == src[i], "destination content differs from the source")
	}
	keep := verifFSContent(root + "/other")
	verifAssert(string(keep) == "keep", "a file outside the transferred names was touched")
	if hadDst && skipped > 0 {
		verifReach("resumed")
	} else {
		verifReach("rewritten")
	}
}

// protocol 2 (and 1): an existing file is opened with truncate and rewritten from the start
func zzH_C08_v2truncate() {
	root := verifFSRoot()
	dst := zzSym8(verifNondetRange(0, verifBound("LEN")))
	verifFSAddFile(root+"/f", dst)
	verifFSBegin()
	t := newTransfer(&zzPipe8{newTransfer(nil, nil, false, nil)}, nil, false, nil)
	t.transferConfig.Timeout = 0
	t.transferConfig.Overwrite = true
	t.transferConfig.Protocol = verifNondetRange(1, 2)
	t.buffer.addBuffer([]byte("#NAME:" + encodeString("f") + "\n"))
	w, local, err := t.recvFileName(root, nil)
	verifAssert(err == nil, "receive failed")
	verifAssert(local == "f", "overwrite stored under another name")
	src := zzSym8(verifNondetRange(0, verifBound("LEN")))
	w.Write(src)
	w.Close()
	got := verifFSContent(root + "/f")
	verifAssert(len(got) == len(src), "old tail left behind the new content")
	for i := range src {
		verifAssert(got[i] == src[i], "destination content differs from the source")
	}
	verifReach("truncated")
}
